package main

// SSA interpreter core (adapted from golang.org/x/tools/go/ssa/interp, BSD
// licence): frames, instruction dispatch, calls, defers, panics. All symbolic
// decisions are delegated to the Path.

import (
	"fmt"
	"go/token"
	"go/types"
	"runtime"
	"slices"
	"strings"

	"golang.org/x/tools/go/ssa"
)

type continuation int

const (
	kNext continuation = iota
	kReturn
	kJump
)

type deferred struct {
	fn    value
	args  []value
	instr *ssa.Defer
	tail  *deferred
}

type frame struct {
	p                *Path
	caller           *frame
	fn               *ssa.Function
	block, prevBlock *ssa.BasicBlock
	env              map[ssa.Value]value // dynamic values of SSA variables
	locals           []value
	defers           *deferred
	result           value
	panicking        bool
	panic            interface{}
	phitemps         []value
	visits           map[*ssa.BasicBlock]int
	cur              ssa.Instruction
	depth            int
}

func (fr *frame) posOf(instr ssa.Instruction) string {
	pos := instr.Pos()
	if pos == token.NoPos && fr.fn != nil {
		pos = fr.fn.Pos()
	}
	return fr.p.eng.prog.Fset.Position(pos).String() + " in " + fr.fn.String()
}

func (fr *frame) get(key ssa.Value) value {
	switch key := key.(type) {
	case nil:
		return nil
	case *ssa.Function, *ssa.Builtin:
		return key
	case *ssa.Const:
		return constValue(key)
	case *ssa.Global:
		return fr.p.global(key)
	}
	if r, ok := fr.env[key]; ok {
		return r
	}
	panic(engineError{fmt.Sprintf("get: no value for %T: %v in %s", key, key.Name(), fr.fn)})
}

func isEngineAbort(x interface{}) bool {
	switch x.(type) {
	case engineError, pathAbort, threadKill, threadCrash:
		return true
	case runtime.Error:
		return true // interpreter bug: never let the target recover it
	}
	return false
}

// runDefer runs a deferred call d.
func (fr *frame) runDefer(d *deferred) {
	var ok bool
	defer func() {
		if !ok {
			r := recover()
			if isEngineAbort(r) {
				panic(r)
			}
			// Deferred call created a new state of panic.
			fr.panicking = true
			fr.panic = r
		}
	}()
	fr.cur = d.instr
	call(fr.p, fr, d.instr.Pos(), d.fn, d.args)
	ok = true
}

func (fr *frame) runDefers() {
	for d := fr.defers; d != nil; d = d.tail {
		fr.runDefer(d)
	}
	fr.defers = nil
	if fr.panicking {
		panic(fr.panic) // new panic, or still panicking
	}
}

func lookupMethod(p *Path, typ types.Type, meth *types.Func) *ssa.Function {
	return p.eng.prog.LookupMethod(typ, meth.Pkg(), meth.Name())
}

func visitInstr(fr *frame, instr ssa.Instruction) continuation {
	fr.cur = instr
	fr.p.steps++
	if fr.p.steps > fr.p.eng.maxSteps {
		panic(pathAbort{"step-limit"})
	}
	switch instr := instr.(type) {
	case *ssa.DebugRef:
		// no-op

	case *ssa.UnOp:
		if instr.Op == token.MUL && fr.p.thr != nil {
			if addr, ok := fr.get(instr.X).(*value); ok && addr != nil {
				fr.p.raceAccess(fr, addr, false)
			}
		}
		fr.env[instr] = fr.unop(instr, fr.get(instr.X))

	case *ssa.BinOp:
		fr.env[instr] = fr.binop(instr, fr.get(instr.X), fr.get(instr.Y))

	case *ssa.Call:
		fn, args := prepareCall(fr, &instr.Call)
		fr.env[instr] = call(fr.p, fr, instr.Pos(), fn, args)

	case *ssa.ChangeInterface:
		fr.env[instr] = fr.get(instr.X)

	case *ssa.ChangeType:
		fr.env[instr] = fr.get(instr.X)

	case *ssa.Convert:
		fr.env[instr] = fr.conv(instr.Type(), instr.X.Type(), fr.get(instr.X))

	case *ssa.SliceToArrayPointer:
		panic(engineError{"unsupported: SliceToArrayPointer at " + fr.posOf(instr)})

	case *ssa.MakeInterface:
		fr.env[instr] = iface{t: instr.X.Type(), v: fr.get(instr.X)}

	case *ssa.Extract:
		fr.env[instr] = fr.get(instr.Tuple).(tuple)[instr.Index]

	case *ssa.Slice:
		fr.env[instr] = fr.slice(fr.get(instr.X), fr.get(instr.Low), fr.get(instr.High), fr.get(instr.Max))

	case *ssa.Return:
		switch len(instr.Results) {
		case 0:
		case 1:
			fr.result = fr.get(instr.Results[0])
		default:
			var res []value
			for _, r := range instr.Results {
				res = append(res, fr.get(r))
			}
			fr.result = tuple(res)
		}
		fr.block = nil
		return kReturn

	case *ssa.RunDefers:
		fr.runDefers()

	case *ssa.Panic:
		panic(targetPanic{fr.get(instr.X)})

	case *ssa.Send:
		panic(engineError{"unsupported: channel send at " + fr.posOf(instr)})

	case *ssa.Store:
		addr, ok := fr.get(instr.Addr).(*value)
		if !ok {
			if _, isOp := fr.get(instr.Addr).(opaque); isOp {
				break // store into opaque object: ignored
			}
			panic(engineError{fmt.Sprintf("store through %T at %s", fr.get(instr.Addr), fr.posOf(instr))})
		}
		if addr == nil {
			panic(runtimePanic("runtime error: invalid memory address or nil pointer dereference"))
		}
		if fr.p.thr != nil {
			fr.p.raceAccess(fr, addr, true)
		}
		store(deref(instr.Addr.Type()), addr, fr.get(instr.Val))

	case *ssa.If:
		succ := 1
		if fr.p.truth(fr.get(instr.Cond)) {
			succ = 0
		}
		fr.prevBlock, fr.block = fr.block, fr.block.Succs[succ]
		return kJump

	case *ssa.Jump:
		fr.prevBlock, fr.block = fr.block, fr.block.Succs[0]
		return kJump

	case *ssa.Defer:
		fn, args := prepareCall(fr, &instr.Call)
		defers := &fr.defers
		if instr.DeferStack != nil {
			if into := fr.get(instr.DeferStack); into != nil {
				defers = into.(**deferred)
			}
		}
		*defers = &deferred{
			fn:    fn,
			args:  args,
			instr: instr,
			tail:  *defers,
		}

	case *ssa.Go:
		fr.p.onGo(fr, instr)

	case *ssa.MakeChan:
		// channels are only tolerated as inert objects (never sent/received)
		fr.env[instr] = make(chan value, 1)

	case *ssa.Alloc:
		var addr *value
		if instr.Heap {
			addr = new(value)
			fr.env[instr] = addr
		} else {
			addr = fr.env[instr].(*value)
		}
		*addr = zero(deref(instr.Type()))

	case *ssa.MakeSlice:
		n := fr.needConcreteInt(fr.get(instr.Cap), "make cap")
		l := fr.needConcreteInt(fr.get(instr.Len), "make len")
		if l < 0 || n < l {
			panic(runtimePanic("runtime error: makeslice: len out of range"))
		}
		if n > 1<<22 {
			panic(engineError{"make: slice too large for the engine"})
		}
		slice := make([]value, n)
		tElt := instr.Type().Underlying().(*types.Slice).Elem()
		for i := range slice {
			slice[i] = zero(tElt)
		}
		fr.env[instr] = slice[:l]

	case *ssa.MakeMap:
		fr.env[instr] = &smap{keyType: instr.Type().Underlying().(*types.Map).Key()}

	case *ssa.Range:
		if m, ok := fr.get(instr.X).(*smap); ok && m != nil && fr.p.thr != nil {
			fr.p.raceAccess(fr, m, false)
		}
		fr.env[instr] = rangeIter(fr, fr.get(instr.X), instr.X.Type())

	case *ssa.Next:
		if it, ok := fr.get(instr.Iter).(*mapIter); ok && it.m != nil && fr.p.thr != nil {
			fr.p.raceAccess(fr, it.m, false)
		}
		fr.env[instr] = fr.get(instr.Iter).(iter).next(fr)

	case *ssa.FieldAddr:
		x := fr.get(instr.X)
		p, ok := x.(*value)
		if !ok {
			if _, isOp := x.(opaque); isOp {
				fr.env[instr] = opaque{instr.Type()}
				break
			}
			panic(engineError{fmt.Sprintf("FieldAddr on %T at %s", x, fr.posOf(instr))})
		}
		if p == nil {
			panic(runtimePanic("runtime error: invalid memory address or nil pointer dereference"))
		}
		st, ok := (*p).(structure)
		if !ok {
			if _, isOp := (*p).(opaque); isOp {
				fr.env[instr] = opaque{instr.Type()}
				break
			}
			panic(engineError{fmt.Sprintf("FieldAddr: pointee is %T at %s", *p, fr.posOf(instr))})
		}
		fr.p.onFieldAddr(fr, instr, p)
		fr.env[instr] = &st[instr.Field]

	case *ssa.Field:
		x := fr.get(instr.X)
		if st, ok := x.(structure); ok {
			fr.env[instr] = st[instr.Field]
		} else if _, ok := x.(opaque); ok {
			fr.env[instr] = opaqueOf(instr.Type())
		} else {
			panic(engineError{fmt.Sprintf("Field on %T at %s", x, fr.posOf(instr))})
		}

	case *ssa.IndexAddr:
		x := fr.get(instr.X)
		idx := fr.get(instr.Index)
		switch x := x.(type) {
		case []value:
			fr.env[instr] = &x[fr.concreteIndex(idx, len(x), "slice")]
		case *value: // *array
			if x == nil {
				panic(runtimePanic("runtime error: invalid memory address or nil pointer dereference"))
			}
			a := (*x).(array)
			fr.env[instr] = &a[fr.concreteIndex(idx, len(a), "array")]
		default:
			panic(engineError{fmt.Sprintf("unexpected x type in IndexAddr: %T", x)})
		}

	case *ssa.Index:
		x := fr.get(instr.X)
		idx := fr.get(instr.Index)
		switch x := x.(type) {
		case array:
			fr.env[instr] = x[fr.concreteIndex(idx, len(x), "array")]
		case string:
			fr.env[instr] = x[fr.concreteIndex(idx, len(x), "string")]
		case *Term:
			panic(engineError{"unsupported: byte index into symbolic string at " + fr.posOf(instr)})
		default:
			panic(engineError{fmt.Sprintf("unexpected x type in Index: %T", x)})
		}

	case *ssa.Lookup:
		x := fr.get(instr.X)
		idx := fr.get(instr.Index)
		switch x := x.(type) {
		case *smap:
			if x != nil && fr.p.thr != nil {
				fr.p.raceAccess(fr, x, false)
			}
			v, ok := x.lookup(fr, idx)
			if !ok {
				v = zero(instr.X.Type().Underlying().(*types.Map).Elem())
			} else {
				v = copyVal(v)
			}
			if instr.CommaOk {
				v = tuple{v, ok}
			}
			fr.env[instr] = v
		case string:
			fr.env[instr] = x[fr.concreteIndex(idx, len(x), "string")]
		default:
			panic(engineError{fmt.Sprintf("unexpected x type in Lookup: %T at %s", x, fr.posOf(instr))})
		}

	case *ssa.MapUpdate:
		m := fr.get(instr.Map).(*smap)
		if m == nil {
			panic(runtimePanic("assignment to entry in nil map"))
		}
		if fr.p.thr != nil {
			fr.p.raceAccess(fr, m, true)
		}
		m.insert(fr, fr.get(instr.Key), copyVal(fr.get(instr.Value)))

	case *ssa.TypeAssert:
		fr.env[instr] = typeAssert(fr, instr, fr.get(instr.X))

	case *ssa.MakeClosure:
		var bindings []value
		for _, binding := range instr.Bindings {
			bindings = append(bindings, fr.get(binding))
		}
		fr.env[instr] = &closure{instr.Fn.(*ssa.Function), bindings}

	case *ssa.Phi:
		panic(engineError{"unreachable: phi"})

	case *ssa.Select:
		panic(engineError{"unsupported: select at " + fr.posOf(instr)})

	default:
		panic(engineError{fmt.Sprintf("unexpected instruction: %T", instr)})
	}
	return kNext
}

func (fr *frame) needConcreteInt(x value, what string) int {
	if t, ok := x.(*Term); ok {
		_ = t
		panic(engineError{"unsupported: symbolic " + what + " at " + fr.posOf(fr.cur)})
	}
	return int(asInt64(x))
}

func prepareCall(fr *frame, call *ssa.CallCommon) (fn value, args []value) {
	v := fr.get(call.Value)
	if call.Method == nil {
		fn = v
	} else {
		// Interface method invocation.
		switch recv := v.(type) {
		case opaque:
			fn = &opaqueCall{sig: call.Method.Type().(*types.Signature), name: call.Method.FullName()}
			args = append(args, recv)
		case iface:
			if recv.t == nil {
				panic(runtimePanic("runtime error: invalid memory address or nil pointer dereference (method " + call.Method.Name() + " invoked on nil interface)"))
			}
			if c, ok := recv.v.(*ctxObj); ok {
				fn = &ctxMethod{name: call.Method.Name()}
				args = append(args, c)
			} else if _, ok := recv.v.(opaque); ok {
				fn = &opaqueCall{sig: call.Method.Type().(*types.Signature), name: call.Method.FullName()}
				args = append(args, recv.v)
			} else {
				f := lookupMethod(fr.p, recv.t, call.Method)
				if f == nil {
					panic(engineError{fmt.Sprintf("method set for dynamic type %v does not contain %s", recv.t, call.Method)})
				}
				fn = f
				args = append(args, recv.v)
			}
		default:
			panic(engineError{fmt.Sprintf("invoke on %T at %s", v, fr.posOf(fr.cur))})
		}
	}
	for _, arg := range call.Args {
		args = append(args, fr.get(arg))
	}
	return
}

type opaqueCall struct {
	sig  *types.Signature
	name string
}

type ctxMethod struct{ name string }

func opaqueOf(t types.Type) value {
	switch u := t.Underlying().(type) {
	case *types.Basic:
		return zero(t)
	case *types.Interface:
		if types.Identical(t, types.Universe.Lookup("error").Type()) {
			return iface{}
		}
		return opaque{t}
	case *types.Tuple:
		if u.Len() == 0 {
			return nil
		}
		if u.Len() == 1 {
			return opaqueOf(u.At(0).Type())
		}
		r := make(tuple, u.Len())
		for i := range r {
			r[i] = opaqueOf(u.At(i).Type())
		}
		return r
	case *types.Slice, *types.Map, *types.Signature:
		return zero(t)
	}
	return opaque{t}
}

func call(p *Path, caller *frame, callpos token.Pos, fn value, args []value) value {
	switch fn := fn.(type) {
	case *ssa.Function:
		if fn == nil {
			where := ""
			if caller != nil && caller.cur != nil {
				where = " at " + caller.posOf(caller.cur)
			}
			panic(runtimePanic("runtime error: call of nil function" + where))
		}
		return callSSA(p, caller, callpos, fn, args, nil)
	case *closure:
		return callSSA(p, caller, callpos, fn.Fn, args, fn.Env)
	case *ssa.Builtin:
		return callBuiltin(caller, callpos, fn, args)
	case *opaqueCall:
		return opaqueOf(fn.sig.Results())
	case *ctxMethod:
		return callCtxMethod(caller, fn.name, args)
	case *builtinFn:
		return fn.h(caller, args)
	case opaque:
		if sig, ok := fn.t.Underlying().(*types.Signature); ok {
			return opaqueOf(sig.Results())
		}
	}
	panic(engineError{fmt.Sprintf("cannot call %T at %s", fn, caller.posOf(caller.cur))})
}

func callSSA(p *Path, caller *frame, callpos token.Pos, fn *ssa.Function, args []value, env []value) value {
	info := p.eng.classify(fn)
	if p.eng.lockset != nil {
		p.eng.lockset.onCall(p, caller, fn)
	}
	for _, cs := range info.cond {
		if p.tags[cs.tag] {
			p.eng.noteFunc(cs.fn)
			return callSSA(p, caller, callpos, cs.fn, args, nil)
		}
	}
	switch info.kind {
	case fkIntrinsic:
		fr := &frame{p: p, caller: caller, fn: fn}
		if caller != nil {
			fr.cur = caller.cur
		}
		return info.h(fr, args)
	case fkStub:
		p.eng.noteFunc(info.stub)
		return callSSA(p, caller, callpos, info.stub, args, nil)
	case fkOpaque:
		return opaqueOf(fn.Signature.Results())
	case fkSkip:
		return nil
	case fkUnsupported:
		where := ""
		if caller != nil {
			where = " at " + caller.posOf(caller.cur)
		}
		panic(engineError{"unsupported external call " + info.name + where})
	}
	if fn.Blocks == nil {
		panic(engineError{"no code for function: " + info.name})
	}
	if fn.TypeParams().Len() > 0 && len(fn.TypeArgs()) == 0 {
		panic(engineError{"uninstantiated generic function " + info.name})
	}
	p.eng.noteFunc(fn)

	fr := &frame{p: p, caller: caller, fn: fn}
	if caller != nil {
		fr.depth = caller.depth + 1
		if fr.depth > 400 {
			panic(engineError{"call depth exceeded in " + info.name})
		}
	}
	fr.env = make(map[ssa.Value]value)
	fr.block = fn.Blocks[0]
	fr.locals = make([]value, len(fn.Locals))
	for i, l := range fn.Locals {
		fr.locals[i] = zero(deref(l.Type()))
		fr.env[l] = &fr.locals[i]
	}
	for i, prm := range fn.Params {
		if i < len(args) {
			fr.env[prm] = args[i]
		} else {
			panic(engineError{fmt.Sprintf("arity mismatch calling %s: %d args", info.name, len(args))})
		}
	}
	for i, fv := range fn.FreeVars {
		fr.env[fv] = env[i]
	}
	for fr.block != nil {
		runFrame(fr)
	}
	return fr.result
}

func runFrame(fr *frame) {
	defer func() {
		if fr.block == nil {
			return // normal return
		}
		r := recover()
		if isEngineAbort(r) {
			panic(r)
		}
		fr.panicking = true
		fr.panic = r
		fr.runDefers()
		fr.block = fr.fn.Recover
		if fr.block == nil {
			// recovered, function without named results: return zero values
			fr.result = zero(fr.fn.Signature.Results())
			if fr.fn.Signature.Results().Len() == 0 {
				fr.result = nil
			}
		}
	}()

	for {
		if fr.visits == nil {
			fr.visits = map[*ssa.BasicBlock]int{}
		}
		fr.visits[fr.block]++
		if fr.visits[fr.block] > fr.p.eng.unwind {
			fr.p.unwindExceeded(fr)
		}
		nonPhis := executePhis(fr)
		for _, instr := range nonPhis {
			if visitInstr(fr, instr) == kReturn {
				return
			}
		}
	}
}

func executePhis(fr *frame) []ssa.Instruction {
	firstNonPhi := -1
	for i, instr := range fr.block.Instrs {
		if _, ok := instr.(*ssa.Phi); !ok {
			firstNonPhi = i
			break
		}
	}
	nonPhis := fr.block.Instrs[firstNonPhi:]
	if firstNonPhi > 0 {
		phis := fr.block.Instrs[:firstNonPhi]
		predIndex := slices.Index(fr.block.Preds, fr.prevBlock)
		fr.phitemps = fr.phitemps[:0]
		for _, phi := range phis {
			phi := phi.(*ssa.Phi)
			fr.phitemps = append(fr.phitemps, fr.get(phi.Edges[predIndex]))
		}
		for i, phi := range phis {
			fr.env[phi.(*ssa.Phi)] = fr.phitemps[i]
		}
	}
	return nonPhis
}

func doRecover(caller *frame) value {
	if caller != nil && !caller.panicking &&
		caller.caller != nil && caller.caller.panicking {
		caller.caller.panicking = false
		p := caller.caller.panic
		caller.caller.panic = nil
		switch p := p.(type) {
		case targetPanic:
			return p.v
		default:
			panic(engineError{fmt.Sprintf("unexpected panic type %T in target call to recover()", p)})
		}
	}
	return iface{}
}

func pkgPathOf(fn *ssa.Function) string {
	if fn.Pkg != nil {
		return fn.Pkg.Pkg.Path()
	}
	if o := fn.Origin(); o != nil && o != fn {
		return pkgPathOf(o)
	}
	if obj := fn.Object(); obj != nil && obj.Pkg() != nil {
		return obj.Pkg().Path()
	}
	if fn.Parent() != nil {
		return pkgPathOf(fn.Parent())
	}
	return ""
}

func isPikoPath(path string) bool {
	return path == pikoMod || strings.HasPrefix(path, pikoMod+"/")
}

const pikoMod = "github.com/andydunstall/piko"
