package main

// Operators (adapted from golang.org/x/tools/go/ssa/interp/ops.go, BSD licence),
// extended with symbolic operands.

import (
	"fmt"
	"go/constant"
	"go/token"
	"go/types"
	"math"
	"os"
	"strings"
	"unsafe"

	"golang.org/x/tools/go/ssa"
)

// targetPanic is raised (as a Go panic) when the target program panics.
type targetPanic struct {
	v value
}

func (p targetPanic) String() string { return toString(p.v) }

// runtimePanic builds a target panic carrying a runtime-error-like message.
func runtimePanic(msg string) targetPanic {
	return targetPanic{iface{t: rtErrType, v: msg}}
}

// rtErrType is the dynamic type used for runtime error panics.
var rtErrType = types.NewNamed(types.NewTypeName(token.NoPos, nil, "runtime.Error", nil), types.Typ[types.String], nil)

// engineError aborts the whole run (exit 2): unsupported construct or engine bug.
type engineError struct{ msg string }

func (e engineError) Error() string { return e.msg }

// pathAbort silently ends the current path (infeasible assume, violation found…).
type pathAbort struct{ why string }

func deref(t types.Type) types.Type {
	if p, ok := t.Underlying().(*types.Pointer); ok {
		return p.Elem()
	}
	panic(engineError{fmt.Sprintf("deref of non-pointer %s", t)})
}

func constValue(c *ssa.Const) value {
	if c.Value == nil {
		return zero(c.Type()) // typed zero
	}
	if t, ok := c.Type().Underlying().(*types.Basic); ok {
		switch t.Kind() {
		case types.Bool, types.UntypedBool:
			return constant.BoolVal(c.Value)
		case types.Int, types.UntypedInt:
			return int(c.Int64())
		case types.Int8:
			return int8(c.Int64())
		case types.Int16:
			return int16(c.Int64())
		case types.Int32, types.UntypedRune:
			return int32(c.Int64())
		case types.Int64:
			return c.Int64()
		case types.Uint:
			return uint(c.Uint64())
		case types.Uint8:
			return uint8(c.Uint64())
		case types.Uint16:
			return uint16(c.Uint64())
		case types.Uint32:
			return uint32(c.Uint64())
		case types.Uint64:
			return c.Uint64()
		case types.Uintptr:
			return uintptr(c.Uint64())
		case types.Float32:
			return float32(c.Float64())
		case types.Float64, types.UntypedFloat:
			return c.Float64()
		case types.Complex64:
			return complex64(c.Complex128())
		case types.Complex128, types.UntypedComplex:
			return c.Complex128()
		case types.String, types.UntypedString:
			if c.Value.Kind() == constant.String {
				return constant.StringVal(c.Value)
			}
			return string(rune(c.Int64()))
		}
	}
	panic(engineError{fmt.Sprintf("constValue: %s", c)})
}

func asInt64(x value) int64 {
	switch x := x.(type) {
	case int:
		return int64(x)
	case int8:
		return int64(x)
	case int16:
		return int64(x)
	case int32:
		return int64(x)
	case int64:
		return x
	case uint:
		return int64(x)
	case uint8:
		return int64(x)
	case uint16:
		return int64(x)
	case uint32:
		return int64(x)
	case uint64:
		return int64(x)
	case uintptr:
		return int64(x)
	}
	panic(engineError{fmt.Sprintf("cannot convert %T to int64", x)})
}

func isSigned(x value) bool {
	switch x.(type) {
	case int, int8, int16, int32, int64:
		return true
	}
	return false
}

// intInfo returns width and signedness for an integer type.
func intInfo(t types.Type) (w int, signed bool, ok bool) {
	b, isb := t.Underlying().(*types.Basic)
	if !isb {
		return 0, false, false
	}
	switch b.Kind() {
	case types.Int, types.Int64, types.UntypedInt:
		return 64, true, true
	case types.Int8:
		return 8, true, true
	case types.Int16:
		return 16, true, true
	case types.Int32, types.UntypedRune:
		return 32, true, true
	case types.Uint, types.Uint64, types.Uintptr:
		return 64, false, true
	case types.Uint8:
		return 8, false, true
	case types.Uint16:
		return 16, false, true
	case types.Uint32:
		return 32, false, true
	}
	return 0, false, false
}

// lift turns a concrete scalar into a literal term.
func lift(t types.Type, v value) *Term {
	switch x := v.(type) {
	case *Term:
		return x
	case bool:
		return mkBool(x)
	case int:
		return mkBV(64, uint64(x))
	case int8:
		return mkBV(8, uint64(x))
	case int16:
		return mkBV(16, uint64(x))
	case int32:
		return mkBV(32, uint64(x))
	case int64:
		return mkBV(64, uint64(x))
	case uint:
		return mkBV(64, uint64(x))
	case uint8:
		return mkBV(8, uint64(x))
	case uint16:
		return mkBV(16, uint64(x))
	case uint32:
		return mkBV(32, uint64(x))
	case uint64:
		return mkBV(64, x)
	case uintptr:
		return mkBV(64, uint64(x))
	case float64:
		return mkFP(x)
	case string:
		return mkStr(x)
	}
	panic(engineError{fmt.Sprintf("lift: cannot lift %T (type %v)", v, t)})
}

// concretize converts a literal BV value back into the native Go value of type t.
func nativeInt(t types.Type, u uint64) value {
	b := t.Underlying().(*types.Basic)
	switch b.Kind() {
	case types.Int, types.UntypedInt:
		return int(u)
	case types.Int8:
		return int8(u)
	case types.Int16:
		return int16(u)
	case types.Int32, types.UntypedRune:
		return int32(u)
	case types.Int64:
		return int64(u)
	case types.Uint:
		return uint(u)
	case types.Uint8:
		return uint8(u)
	case types.Uint16:
		return uint16(u)
	case types.Uint32:
		return uint32(u)
	case types.Uint64:
		return u
	case types.Uintptr:
		return uintptr(u)
	}
	panic(engineError{"nativeInt: " + t.String()})
}

// zero returns a new "zero" value of the specified type.
func zero(t types.Type) value {
	switch t := t.(type) {
	case *types.Basic:
		if t.Kind() == types.UntypedNil {
			panic(engineError{"untyped nil has no zero value"})
		}
		if t.Info()&types.IsUntyped != 0 {
			t = types.Default(t).(*types.Basic)
		}
		switch t.Kind() {
		case types.Bool:
			return false
		case types.Int:
			return int(0)
		case types.Int8:
			return int8(0)
		case types.Int16:
			return int16(0)
		case types.Int32:
			return int32(0)
		case types.Int64:
			return int64(0)
		case types.Uint:
			return uint(0)
		case types.Uint8:
			return uint8(0)
		case types.Uint16:
			return uint16(0)
		case types.Uint32:
			return uint32(0)
		case types.Uint64:
			return uint64(0)
		case types.Uintptr:
			return uintptr(0)
		case types.Float32:
			return float32(0)
		case types.Float64:
			return float64(0)
		case types.Complex64:
			return complex64(0)
		case types.Complex128:
			return complex128(0)
		case types.String:
			return ""
		case types.UnsafePointer:
			return unsafe.Pointer(nil)
		default:
			panic(engineError{fmt.Sprint("zero for unexpected type:", t)})
		}
	case *types.Pointer:
		return (*value)(nil)
	case *types.Array:
		a := make(array, t.Len())
		for i := range a {
			a[i] = zero(t.Elem())
		}
		return a
	case *types.Named:
		return zero(t.Underlying())
	case *types.Alias:
		return zero(types.Unalias(t))
	case *types.Interface:
		return iface{} // nil type, methodset and value
	case *types.Slice:
		return []value(nil)
	case *types.Struct:
		s := make(structure, t.NumFields())
		for i := range s {
			s[i] = zero(t.Field(i).Type())
		}
		return s
	case *types.Tuple:
		if t.Len() == 1 {
			return zero(t.At(0).Type())
		}
		s := make(tuple, t.Len())
		for i := range s {
			s[i] = zero(t.At(i).Type())
		}
		return s
	case *types.Chan:
		return chan value(nil)
	case *types.Map:
		return (*smap)(nil)
	case *types.Signature:
		return (*ssa.Function)(nil)
	case *types.TypeParam:
		panic(engineError{"zero of type parameter"})
	}
	panic(engineError{fmt.Sprint("zero: unexpected ", t)})
}

// concreteInt forces an integer value to a concrete int64, case-splitting over
// [lo,hi] if it is symbolic. Values outside the range take the "other" branch
// which calls onOther (may panic).
func (fr *frame) concreteIndex(x value, n int, what string) int {
	t, ok := x.(*Term)
	if !ok {
		i := asInt64(x)
		if i < 0 || int(i) >= n {
			panic(runtimePanic(fmt.Sprintf("runtime error: index out of range [%d] with length %d (%s)", i, n, what)))
		}
		return int(i)
	}
	// case split 0..n-1 (+ out of range)
	conds := make([]*Term, 0, n+1)
	for i := 0; i < n; i++ {
		conds = append(conds, tEq(t, mkBV(t.sort.w, uint64(i))))
	}
	var inRange *Term = mkBool(false)
	for _, c := range conds {
		inRange = tOr(inRange, c)
	}
	conds = append(conds, tNot(inRange))
	k := fr.p.split(conds, "index")
	if k == n {
		panic(runtimePanic(fmt.Sprintf("runtime error: index out of range [symbolic] with length %d (%s)", n, what)))
	}
	return k
}

// slice returns x[lo:hi:max].  Any of lo, hi and max may be nil.
func (fr *frame) slice(x, lo, hi, max value) value {
	var Len, Cap int
	switch x := x.(type) {
	case string:
		Len = len(x)
		Cap = Len
	case []value:
		Len = len(x)
		Cap = cap(x)
	case *value: // *array
		a := (*x).(array)
		Len = len(a)
		Cap = cap(a)
	case *Term:
		return fr.sliceSymString(x, lo, hi)
	default:
		panic(engineError{fmt.Sprintf("slice: unexpected X type: %T", x)})
	}

	l := 0
	if lo != nil {
		l = fr.concreteBound(lo, Cap)
	}
	h := Len
	if hi != nil {
		h = fr.concreteBound(hi, Cap)
	}
	m := Cap
	if max != nil {
		m = fr.concreteBound(max, Cap)
	}
	if l < 0 || l > h || h > m || m > Cap {
		panic(runtimePanic(fmt.Sprintf("runtime error: slice bounds out of range [%d:%d:%d] with capacity %d", l, h, m, Cap)))
	}
	switch x := x.(type) {
	case string:
		return x[l:h]
	case []value:
		return x[l:h:m]
	case *value: // *array
		a := (*x).(array)
		return []value(a)[l:h:m]
	}
	panic("unreachable")
}

func (fr *frame) concreteBound(x value, n int) int {
	if t, ok := x.(*Term); ok {
		conds := make([]*Term, 0, n+2)
		var any *Term = mkBool(false)
		for i := 0; i <= n; i++ {
			c := tEq(t, mkBV(t.sort.w, uint64(i)))
			conds = append(conds, c)
			any = tOr(any, c)
		}
		conds = append(conds, tNot(any))
		k := fr.p.split(conds, "slice-bound")
		if k == n+1 {
			panic(runtimePanic("runtime error: slice bounds out of range [symbolic]"))
		}
		return k
	}
	return int(asInt64(x))
}

func (fr *frame) sliceSymString(s *Term, lo, hi value) value {
	var l, h *Term
	if lo != nil {
		l = bvToInt(lift(types.Typ[types.Int], lo), true)
	} else {
		l = mkIntLit(0)
	}
	slen := mkOp("str.len", sortInt, s)
	if hi != nil {
		h = bvToInt(lift(types.Typ[types.Int], hi), true)
	} else {
		h = slen
	}
	okc := tAnd(mkOp("<=", sortBool, mkIntLit(0), l), tAnd(mkOp("<=", sortBool, l, h), mkOp("<=", sortBool, h, slen)))
	if !fr.p.truth(okc) {
		panic(runtimePanic("runtime error: slice bounds out of range (symbolic string)"))
	}
	return mkOp("str.substr", sortStr, s, l, mkOp("-", sortInt, h, l))
}

func bvToInt(t *Term, signed bool) *Term {
	if t.isLit() {
		if signed {
			w := t.sort.w
			v := int64(t.bv<<(64-uint(w))) >> (64 - uint(w))
			return mkIntLit(v)
		}
		return mkIntLit(int64(t.bv))
	}
	u := mkOp("bv2nat", sortInt, t)
	if !signed {
		return u
	}
	w := t.sort.w
	neg := mkOp("bvslt", sortBool, t, mkBV(w, 0))
	// 2^w as Int literal
	pow := "18446744073709551616"
	if w != 64 {
		pow = fmt.Sprintf("%d", uint64(1)<<uint(w))
	}
	return tIte(neg, mkOp("-", sortInt, u, &Term{sort: sortInt, lit: pow}), u)
}

// ---------------------------------------------------------------------------

func cmpOp(op token.Token, signed bool) string {
	switch op {
	case token.LSS:
		if signed {
			return "bvslt"
		}
		return "bvult"
	case token.LEQ:
		if signed {
			return "bvsle"
		}
		return "bvule"
	case token.GTR:
		if signed {
			return "bvsgt"
		}
		return "bvugt"
	case token.GEQ:
		if signed {
			return "bvsge"
		}
		return "bvuge"
	}
	panic("cmpOp")
}

func unlit(t types.Type, r *Term) value {
	if !r.isLit() {
		return r
	}
	switch r.sort.k {
	case kBool:
		return r.b
	case kBV:
		if t != nil {
			if _, _, ok := intInfo(t); ok {
				return nativeInt(t, r.bv)
			}
		}
		return r
	case kStr:
		return r.s
	case kFP:
		return r.f
	}
	return r
}

// symBinop handles binary operators where at least one operand is symbolic.
func (fr *frame) symBinop(op token.Token, t types.Type, tRes types.Type, x, y value, yType types.Type) value {
	switch op {
	case token.EQL:
		return equalsV(fr, t, x, y)
	case token.NEQ:
		return notV(equalsV(fr, t, x, y))
	}
	xt := lift(t, x)
	if op == token.SHL || op == token.SHR {
		return fr.symShift(op, t, xt, y, yType)
	}
	yt := lift(t, y)
	switch xt.sort.k {
	case kBV:
		w, signed, _ := intInfo(t)
		_ = w
		s := xt.sort
		switch op {
		case token.ADD:
			if yt.isLit() && yt.bv == 0 {
				return xt
			}
			if xt.isLit() && xt.bv == 0 {
				return yt
			}
			return mkOp("bvadd", s, xt, yt)
		case token.SUB:
			if yt.isLit() && yt.bv == 0 {
				return xt
			}
			if xt == yt {
				return mkBV(s.w, 0)
			}
			// (a + b) - a = b ; (a + b) - b = a   (wrap-around arithmetic)
			if xt.op == "bvadd" && len(xt.args) == 2 {
				if xt.args[0] == yt {
					return xt.args[1]
				}
				if xt.args[1] == yt {
					return xt.args[0]
				}
			}
			return mkOp("bvsub", s, xt, yt)
		case token.MUL:
			return mkOp("bvmul", s, xt, yt)
		case token.QUO, token.REM:
			isZero := tEq(yt, mkBV(s.w, 0))
			if fr.p.truth(isZero) {
				panic(runtimePanic("runtime error: integer divide by zero"))
			}
			var o string
			switch {
			case op == token.QUO && signed:
				o = "bvsdiv"
			case op == token.QUO:
				o = "bvudiv"
			case signed:
				o = "bvsrem"
			default:
				o = "bvurem"
			}
			return mkOp(o, s, xt, yt)
		case token.AND:
			return mkOp("bvand", s, xt, yt)
		case token.OR:
			return mkOp("bvor", s, xt, yt)
		case token.XOR:
			return mkOp("bvxor", s, xt, yt)
		case token.AND_NOT:
			return mkOp("bvand", s, xt, mkOp("bvnot", s, yt))
		case token.LSS, token.LEQ, token.GTR, token.GEQ:
			return mkOp(cmpOp(op, signed), sortBool, xt, yt)
		}
	case kFP:
		rne := &Term{sort: Sort{}, lit: "RNE"}
		switch op {
		case token.ADD:
			return mkOp("fp.add", sortFP, rne, xt, yt)
		case token.SUB:
			return mkOp("fp.sub", sortFP, rne, xt, yt)
		case token.MUL:
			return mkOp("fp.mul", sortFP, rne, xt, yt)
		case token.QUO:
			return mkOp("fp.div", sortFP, rne, xt, yt)
		case token.LSS:
			return mkOp("fp.lt", sortBool, xt, yt)
		case token.LEQ:
			return mkOp("fp.leq", sortBool, xt, yt)
		case token.GTR:
			return mkOp("fp.gt", sortBool, xt, yt)
		case token.GEQ:
			return mkOp("fp.geq", sortBool, xt, yt)
		}
	case kStr:
		switch op {
		case token.ADD:
			if xt.isLit() && xt.s == "" {
				return yt
			}
			if yt.isLit() && yt.s == "" {
				return xt
			}
			return mkOp("str.++", sortStr, xt, yt)
		case token.LSS:
			return mkOp("str.<", sortBool, xt, yt)
		case token.LEQ:
			return mkOp("str.<=", sortBool, xt, yt)
		case token.GTR:
			return mkOp("str.<", sortBool, yt, xt)
		case token.GEQ:
			return mkOp("str.<=", sortBool, yt, xt)
		}
	case kBool:
		switch op {
		case token.AND, token.LAND:
			return tAnd(xt, yt)
		case token.OR, token.LOR:
			return tOr(xt, yt)
		}
	}
	panic(engineError{fmt.Sprintf("symBinop: unsupported %s on %s", op, xt.sort)})
}

func (fr *frame) symShift(op token.Token, t types.Type, xt *Term, y value, yType types.Type) value {
	w := xt.sort.w
	_, signed, _ := intInfo(t)
	var yt *Term
	if yc, ok := y.(*Term); ok {
		yt = yc
		_, ysigned, _ := intInfo(yType)
		if ysigned {
			if fr.p.truth(mkOp("bvslt", sortBool, yt, mkBV(yt.sort.w, 0))) {
				panic(runtimePanic("runtime error: negative shift amount"))
			}
		}
	} else {
		n := asInt64(y)
		if isSigned(y) && n < 0 {
			panic(runtimePanic("runtime error: negative shift amount"))
		}
		if uint64(n) >= uint64(w) {
			n = int64(w)
		}
		yt = mkBV(w, uint64(n))
	}
	// bring shift amount to width w (saturating)
	if yt.sort.w > w {
		big := mkOp("bvuge", sortBool, yt, mkBV(yt.sort.w, uint64(w)))
		low := mkOp(fmt.Sprintf("(_ extract %d 0)", w-1), sortBV(w), yt)
		yt = tIte(big, mkBV(w, uint64(w)), low)
	} else if yt.sort.w < w {
		yt = mkOp(fmt.Sprintf("(_ zero_extend %d)", w-yt.sort.w), sortBV(w), yt)
	}
	switch {
	case op == token.SHL:
		return mkOp("bvshl", xt.sort, xt, yt)
	case signed:
		return mkOp("bvashr", xt.sort, xt, yt)
	default:
		return mkOp("bvlshr", xt.sort, xt, yt)
	}
}

// binop implements all arithmetic and logical binary operators.
func (fr *frame) binop(instr *ssa.BinOp, x, y value) value {
	op := instr.Op
	t := instr.X.Type()
	_, xs := x.(*Term)
	_, ys := y.(*Term)
	if xs || ys {
		return unlit(instr.Type(), liftRes(fr.symBinop(op, t, instr.Type(), x, y, instr.Y.Type())))
	}
	return concBinop(fr, op, t, x, y)
}

func liftRes(v value) *Term {
	if t, ok := v.(*Term); ok {
		return t
	}
	return lift(nil, v)
}

func concBinop(fr *frame, op token.Token, t types.Type, x, y value) value {
	switch op {
	case token.ADD:
		switch x.(type) {
		case int:
			return x.(int) + y.(int)
		case int8:
			return x.(int8) + y.(int8)
		case int16:
			return x.(int16) + y.(int16)
		case int32:
			return x.(int32) + y.(int32)
		case int64:
			return x.(int64) + y.(int64)
		case uint:
			return x.(uint) + y.(uint)
		case uint8:
			return x.(uint8) + y.(uint8)
		case uint16:
			return x.(uint16) + y.(uint16)
		case uint32:
			return x.(uint32) + y.(uint32)
		case uint64:
			return x.(uint64) + y.(uint64)
		case uintptr:
			return x.(uintptr) + y.(uintptr)
		case float32:
			return x.(float32) + y.(float32)
		case float64:
			return x.(float64) + y.(float64)
		case complex64:
			return x.(complex64) + y.(complex64)
		case complex128:
			return x.(complex128) + y.(complex128)
		case string:
			return x.(string) + y.(string)
		}

	case token.SUB:
		switch x.(type) {
		case int:
			return x.(int) - y.(int)
		case int8:
			return x.(int8) - y.(int8)
		case int16:
			return x.(int16) - y.(int16)
		case int32:
			return x.(int32) - y.(int32)
		case int64:
			return x.(int64) - y.(int64)
		case uint:
			return x.(uint) - y.(uint)
		case uint8:
			return x.(uint8) - y.(uint8)
		case uint16:
			return x.(uint16) - y.(uint16)
		case uint32:
			return x.(uint32) - y.(uint32)
		case uint64:
			return x.(uint64) - y.(uint64)
		case uintptr:
			return x.(uintptr) - y.(uintptr)
		case float32:
			return x.(float32) - y.(float32)
		case float64:
			return x.(float64) - y.(float64)
		case complex64:
			return x.(complex64) - y.(complex64)
		case complex128:
			return x.(complex128) - y.(complex128)
		}

	case token.MUL:
		switch x.(type) {
		case int:
			return x.(int) * y.(int)
		case int8:
			return x.(int8) * y.(int8)
		case int16:
			return x.(int16) * y.(int16)
		case int32:
			return x.(int32) * y.(int32)
		case int64:
			return x.(int64) * y.(int64)
		case uint:
			return x.(uint) * y.(uint)
		case uint8:
			return x.(uint8) * y.(uint8)
		case uint16:
			return x.(uint16) * y.(uint16)
		case uint32:
			return x.(uint32) * y.(uint32)
		case uint64:
			return x.(uint64) * y.(uint64)
		case uintptr:
			return x.(uintptr) * y.(uintptr)
		case float32:
			return x.(float32) * y.(float32)
		case float64:
			return x.(float64) * y.(float64)
		case complex64:
			return x.(complex64) * y.(complex64)
		case complex128:
			return x.(complex128) * y.(complex128)
		}

	case token.QUO:
		switch x.(type) {
		case int, int8, int16, int32, int64, uint, uint8, uint16, uint32, uint64, uintptr:
			if asInt64(y) == 0 {
				panic(runtimePanic("runtime error: integer divide by zero"))
			}
		}
		switch x.(type) {
		case int:
			return x.(int) / y.(int)
		case int8:
			return x.(int8) / y.(int8)
		case int16:
			return x.(int16) / y.(int16)
		case int32:
			return x.(int32) / y.(int32)
		case int64:
			return x.(int64) / y.(int64)
		case uint:
			return x.(uint) / y.(uint)
		case uint8:
			return x.(uint8) / y.(uint8)
		case uint16:
			return x.(uint16) / y.(uint16)
		case uint32:
			return x.(uint32) / y.(uint32)
		case uint64:
			return x.(uint64) / y.(uint64)
		case uintptr:
			return x.(uintptr) / y.(uintptr)
		case float32:
			return x.(float32) / y.(float32)
		case float64:
			return x.(float64) / y.(float64)
		case complex64:
			return x.(complex64) / y.(complex64)
		case complex128:
			return x.(complex128) / y.(complex128)
		}

	case token.REM:
		if asInt64(y) == 0 {
			panic(runtimePanic("runtime error: integer divide by zero"))
		}
		switch x.(type) {
		case int:
			return x.(int) % y.(int)
		case int8:
			return x.(int8) % y.(int8)
		case int16:
			return x.(int16) % y.(int16)
		case int32:
			return x.(int32) % y.(int32)
		case int64:
			return x.(int64) % y.(int64)
		case uint:
			return x.(uint) % y.(uint)
		case uint8:
			return x.(uint8) % y.(uint8)
		case uint16:
			return x.(uint16) % y.(uint16)
		case uint32:
			return x.(uint32) % y.(uint32)
		case uint64:
			return x.(uint64) % y.(uint64)
		case uintptr:
			return x.(uintptr) % y.(uintptr)
		}

	case token.AND:
		switch x.(type) {
		case int:
			return x.(int) & y.(int)
		case int8:
			return x.(int8) & y.(int8)
		case int16:
			return x.(int16) & y.(int16)
		case int32:
			return x.(int32) & y.(int32)
		case int64:
			return x.(int64) & y.(int64)
		case uint:
			return x.(uint) & y.(uint)
		case uint8:
			return x.(uint8) & y.(uint8)
		case uint16:
			return x.(uint16) & y.(uint16)
		case uint32:
			return x.(uint32) & y.(uint32)
		case uint64:
			return x.(uint64) & y.(uint64)
		case uintptr:
			return x.(uintptr) & y.(uintptr)
		}

	case token.OR:
		switch x.(type) {
		case int:
			return x.(int) | y.(int)
		case int8:
			return x.(int8) | y.(int8)
		case int16:
			return x.(int16) | y.(int16)
		case int32:
			return x.(int32) | y.(int32)
		case int64:
			return x.(int64) | y.(int64)
		case uint:
			return x.(uint) | y.(uint)
		case uint8:
			return x.(uint8) | y.(uint8)
		case uint16:
			return x.(uint16) | y.(uint16)
		case uint32:
			return x.(uint32) | y.(uint32)
		case uint64:
			return x.(uint64) | y.(uint64)
		case uintptr:
			return x.(uintptr) | y.(uintptr)
		}

	case token.XOR:
		switch x.(type) {
		case int:
			return x.(int) ^ y.(int)
		case int8:
			return x.(int8) ^ y.(int8)
		case int16:
			return x.(int16) ^ y.(int16)
		case int32:
			return x.(int32) ^ y.(int32)
		case int64:
			return x.(int64) ^ y.(int64)
		case uint:
			return x.(uint) ^ y.(uint)
		case uint8:
			return x.(uint8) ^ y.(uint8)
		case uint16:
			return x.(uint16) ^ y.(uint16)
		case uint32:
			return x.(uint32) ^ y.(uint32)
		case uint64:
			return x.(uint64) ^ y.(uint64)
		case uintptr:
			return x.(uintptr) ^ y.(uintptr)
		}

	case token.AND_NOT:
		switch x.(type) {
		case int:
			return x.(int) &^ y.(int)
		case int8:
			return x.(int8) &^ y.(int8)
		case int16:
			return x.(int16) &^ y.(int16)
		case int32:
			return x.(int32) &^ y.(int32)
		case int64:
			return x.(int64) &^ y.(int64)
		case uint:
			return x.(uint) &^ y.(uint)
		case uint8:
			return x.(uint8) &^ y.(uint8)
		case uint16:
			return x.(uint16) &^ y.(uint16)
		case uint32:
			return x.(uint32) &^ y.(uint32)
		case uint64:
			return x.(uint64) &^ y.(uint64)
		case uintptr:
			return x.(uintptr) &^ y.(uintptr)
		}

	case token.SHL:
		if isSigned(y) && asInt64(y) < 0 {
			panic(runtimePanic("runtime error: negative shift amount"))
		}
		y := uint64(asInt64(y))
		switch x.(type) {
		case int:
			return x.(int) << y
		case int8:
			return x.(int8) << y
		case int16:
			return x.(int16) << y
		case int32:
			return x.(int32) << y
		case int64:
			return x.(int64) << y
		case uint:
			return x.(uint) << y
		case uint8:
			return x.(uint8) << y
		case uint16:
			return x.(uint16) << y
		case uint32:
			return x.(uint32) << y
		case uint64:
			return x.(uint64) << y
		case uintptr:
			return x.(uintptr) << y
		}

	case token.SHR:
		if isSigned(y) && asInt64(y) < 0 {
			panic(runtimePanic("runtime error: negative shift amount"))
		}
		y := uint64(asInt64(y))
		switch x.(type) {
		case int:
			return x.(int) >> y
		case int8:
			return x.(int8) >> y
		case int16:
			return x.(int16) >> y
		case int32:
			return x.(int32) >> y
		case int64:
			return x.(int64) >> y
		case uint:
			return x.(uint) >> y
		case uint8:
			return x.(uint8) >> y
		case uint16:
			return x.(uint16) >> y
		case uint32:
			return x.(uint32) >> y
		case uint64:
			return x.(uint64) >> y
		case uintptr:
			return x.(uintptr) >> y
		}

	case token.LSS:
		switch x.(type) {
		case int:
			return x.(int) < y.(int)
		case int8:
			return x.(int8) < y.(int8)
		case int16:
			return x.(int16) < y.(int16)
		case int32:
			return x.(int32) < y.(int32)
		case int64:
			return x.(int64) < y.(int64)
		case uint:
			return x.(uint) < y.(uint)
		case uint8:
			return x.(uint8) < y.(uint8)
		case uint16:
			return x.(uint16) < y.(uint16)
		case uint32:
			return x.(uint32) < y.(uint32)
		case uint64:
			return x.(uint64) < y.(uint64)
		case uintptr:
			return x.(uintptr) < y.(uintptr)
		case float32:
			return x.(float32) < y.(float32)
		case float64:
			return x.(float64) < y.(float64)
		case string:
			return x.(string) < y.(string)
		}

	case token.LEQ:
		switch x.(type) {
		case int:
			return x.(int) <= y.(int)
		case int8:
			return x.(int8) <= y.(int8)
		case int16:
			return x.(int16) <= y.(int16)
		case int32:
			return x.(int32) <= y.(int32)
		case int64:
			return x.(int64) <= y.(int64)
		case uint:
			return x.(uint) <= y.(uint)
		case uint8:
			return x.(uint8) <= y.(uint8)
		case uint16:
			return x.(uint16) <= y.(uint16)
		case uint32:
			return x.(uint32) <= y.(uint32)
		case uint64:
			return x.(uint64) <= y.(uint64)
		case uintptr:
			return x.(uintptr) <= y.(uintptr)
		case float32:
			return x.(float32) <= y.(float32)
		case float64:
			return x.(float64) <= y.(float64)
		case string:
			return x.(string) <= y.(string)
		}

	case token.EQL:
		return eqnil(fr, t, x, y)

	case token.NEQ:
		return notV(eqnil(fr, t, x, y))

	case token.GTR:
		switch x.(type) {
		case int:
			return x.(int) > y.(int)
		case int8:
			return x.(int8) > y.(int8)
		case int16:
			return x.(int16) > y.(int16)
		case int32:
			return x.(int32) > y.(int32)
		case int64:
			return x.(int64) > y.(int64)
		case uint:
			return x.(uint) > y.(uint)
		case uint8:
			return x.(uint8) > y.(uint8)
		case uint16:
			return x.(uint16) > y.(uint16)
		case uint32:
			return x.(uint32) > y.(uint32)
		case uint64:
			return x.(uint64) > y.(uint64)
		case uintptr:
			return x.(uintptr) > y.(uintptr)
		case float32:
			return x.(float32) > y.(float32)
		case float64:
			return x.(float64) > y.(float64)
		case string:
			return x.(string) > y.(string)
		}

	case token.GEQ:
		switch x.(type) {
		case int:
			return x.(int) >= y.(int)
		case int8:
			return x.(int8) >= y.(int8)
		case int16:
			return x.(int16) >= y.(int16)
		case int32:
			return x.(int32) >= y.(int32)
		case int64:
			return x.(int64) >= y.(int64)
		case uint:
			return x.(uint) >= y.(uint)
		case uint8:
			return x.(uint8) >= y.(uint8)
		case uint16:
			return x.(uint16) >= y.(uint16)
		case uint32:
			return x.(uint32) >= y.(uint32)
		case uint64:
			return x.(uint64) >= y.(uint64)
		case uintptr:
			return x.(uintptr) >= y.(uintptr)
		case float32:
			return x.(float32) >= y.(float32)
		case float64:
			return x.(float64) >= y.(float64)
		case string:
			return x.(string) >= y.(string)
		}
	}
	panic(engineError{fmt.Sprintf("invalid binary op: %T %s %T", x, op, y)})
}

func (fr *frame) unop(instr *ssa.UnOp, x value) value {
	if t, ok := x.(*Term); ok {
		switch instr.Op {
		case token.NOT:
			return unlit(instr.Type(), tNot(t))
		case token.SUB:
			switch t.sort.k {
			case kBV:
				return mkOp("bvneg", t.sort, t)
			case kFP:
				return mkOp("fp.neg", t.sort, t)
			}
		case token.XOR:
			return mkOp("bvnot", t.sort, t)
		}
		panic(engineError{fmt.Sprintf("symbolic unop %s unsupported", instr.Op)})
	}
	switch instr.Op {
	case token.ARROW: // receive
		panic(engineError{"unsupported: channel receive at " + fr.posOf(instr)})
	case token.SUB:
		switch x := x.(type) {
		case int:
			return -x
		case int8:
			return -x
		case int16:
			return -x
		case int32:
			return -x
		case int64:
			return -x
		case uint:
			return -x
		case uint8:
			return -x
		case uint16:
			return -x
		case uint32:
			return -x
		case uint64:
			return -x
		case uintptr:
			return -x
		case float32:
			return -x
		case float64:
			return -x
		case complex64:
			return -x
		case complex128:
			return -x
		}
	case token.MUL:
		p, ok := x.(*value)
		if !ok {
			if _, isOp := x.(opaque); isOp {
				return opaque{deref(instr.X.Type())}
			}
			panic(engineError{fmt.Sprintf("load through %T at %s", x, fr.posOf(instr))})
		}
		if p == nil {
			panic(runtimePanic("runtime error: invalid memory address or nil pointer dereference"))
		}
		return load(deref(instr.X.Type()), p)
	case token.NOT:
		return !x.(bool)
	case token.XOR:
		switch x := x.(type) {
		case int:
			return ^x
		case int8:
			return ^x
		case int16:
			return ^x
		case int32:
			return ^x
		case int64:
			return ^x
		case uint:
			return ^x
		case uint8:
			return ^x
		case uint16:
			return ^x
		case uint32:
			return ^x
		case uint64:
			return ^x
		case uintptr:
			return ^x
		}
	}
	panic(engineError{fmt.Sprintf("invalid unary op %s %T", instr.Op, x)})
}

// typeAssert checks whether dynamic type of itf is instr.AssertedType.
func typeAssert(fr *frame, instr *ssa.TypeAssert, x value) value {
	if op, ok := x.(opaque); ok {
		// opaque interface value: assertion to anything yields opaque
		if instr.CommaOk {
			return tuple{opaque{instr.AssertedType}, false}
		}
		_ = op
		return opaque{instr.AssertedType}
	}
	itf := x.(iface)
	var v value
	err := ""
	if itf.t == nil {
		err = fmt.Sprintf("interface conversion: interface is nil, not %s", instr.AssertedType)
	} else if idst, ok := instr.AssertedType.Underlying().(*types.Interface); ok {
		v = itf
		if _, isCtx := itf.v.(*ctxObj); !isCtx {
			if meth, _ := types.MissingMethod(itf.t, idst, true); meth != nil {
				err = fmt.Sprintf("interface conversion: %v is not %v: missing method %s", itf.t, idst, meth.Name())
			}
		}
	} else if types.Identical(itf.t, instr.AssertedType) {
		v = itf.v // extract value
	} else {
		err = fmt.Sprintf("interface conversion: interface is %s, not %s", itf.t, instr.AssertedType)
	}
	if err != "" {
		if !instr.CommaOk {
			panic(runtimePanic(err))
		}
		return tuple{zero(instr.AssertedType), false}
	}
	if instr.CommaOk {
		return tuple{v, true}
	}
	return v
}

// callBuiltin interprets a call to builtin fn with arguments args.
func callBuiltin(caller *frame, callpos token.Pos, fn *ssa.Builtin, args []value) value {
	switch fn.Name() {
	case "append":
		if len(args) == 1 {
			return args[0]
		}
		if s, ok := args[1].(string); ok {
			arg0 := args[0].([]value)
			for i := 0; i < len(s); i++ {
				arg0 = append(arg0, s[i])
			}
			return arg0
		}
		if _, ok := args[1].(*Term); ok {
			panic(engineError{"unsupported: append of symbolic string to []byte"})
		}
		src := args[1].([]value)
		cp := make([]value, len(src))
		for i := range src {
			cp[i] = copyVal(src[i])
		}
		return append(args[0].([]value), cp...)

	case "copy":
		src := args[1]
		if s, ok := src.(string); ok {
			bs := make([]value, len(s))
			for i := 0; i < len(s); i++ {
				bs[i] = s[i]
			}
			src = bs
		}
		dst := args[0].([]value)
		s := src.([]value)
		n := len(dst)
		if len(s) < n {
			n = len(s)
		}
		tmp := make([]value, n)
		for i := 0; i < n; i++ {
			tmp[i] = copyVal(s[i])
		}
		copy(dst, tmp)
		return n

	case "close":
		panic(engineError{"unsupported: close(chan)"})

	case "delete":
		m := args[0].(*smap)
		if m != nil {
			if caller.p.thr != nil {
				caller.p.raceAccess(caller, m, true)
			}
			m.delete(caller, args[1])
		}
		return nil

	case "print", "println":
		ln := fn.Name() == "println"
		var sb strings.Builder
		for i, arg := range args {
			if i > 0 && ln {
				sb.WriteByte(' ')
			}
			sb.WriteString(toString(arg))
		}
		if ln {
			sb.WriteByte('\n')
		}
		if caller.p.eng.verbose {
			os.Stderr.WriteString(sb.String())
		}
		return nil

	case "len":
		switch x := args[0].(type) {
		case string:
			return len(x)
		case *Term:
			return intToBV(mkOp("str.len", sortInt, x), 64)
		case array:
			return len(x)
		case *value:
			return len((*x).(array))
		case []value:
			return len(x)
		case *smap:
			return x.len()
		case chan value:
			return len(x)
		default:
			panic(engineError{fmt.Sprintf("len: illegal operand: %T", x)})
		}

	case "cap":
		switch x := args[0].(type) {
		case array:
			return cap(x)
		case *value:
			return cap((*x).(array))
		case []value:
			return cap(x)
		default:
			panic(engineError{fmt.Sprintf("cap: illegal operand: %T", x)})
		}

	case "min", "max":
		t := fn.Type().(*types.Signature).Params().At(0).Type()
		x := args[0]
		for _, y := range args[1:] {
			var lt value
			_, xs := x.(*Term)
			_, ys := y.(*Term)
			tok := token.LSS
			if fn.Name() == "max" {
				tok = token.GTR
			}
			if xs || ys {
				lt = caller.symBinop(tok, t, types.Typ[types.Bool], y, x, t)
			} else {
				lt = concBinop(caller, tok, t, y, x)
			}
			if b, ok := lt.(bool); ok {
				if b {
					x = y
				}
			} else {
				x = tIte(lt.(*Term), lift(t, y), lift(t, x))
			}
		}
		return x

	case "panic":
		panic(targetPanic{args[0]})

	case "recover":
		return doRecover(caller)

	case "ssa:wrapnilchk":
		recv := args[0]
		if p, ok := recv.(*value); ok && p == nil {
			panic(runtimePanic(fmt.Sprintf("value method %v.%v called using nil pointer", args[1], args[2])))
		}
		return recv

	case "ssa:deferstack":
		return &caller.defers
	}

	panic(engineError{"unknown built-in: " + fn.Name()})
}

func intToBV(t *Term, w int) *Term {
	return mkOp(fmt.Sprintf("(_ int2bv %d)", w), sortBV(w), t)
}

func rangeIter(fr *frame, x value, t types.Type) iter {
	switch x := x.(type) {
	case *smap:
		it := &mapIter{m: x}
		if x != nil {
			it.snapshot = append(it.snapshot, x.entries...)
			// Go randomises map iteration; harnesses for order-sensitive code
			// explore both insertion order and its reverse (tag set by the harness)
			if fr.p.tags["maporder-reverse"] {
				for i, j := 0, len(it.snapshot)-1; i < j; i, j = i+1, j-1 {
					it.snapshot[i], it.snapshot[j] = it.snapshot[j], it.snapshot[i]
				}
			}
		}
		return it
	case string:
		return &stringIter{Reader: strings.NewReader(x)}
	case *Term:
		panic(engineError{"unsupported: range over symbolic string"})
	}
	panic(engineError{fmt.Sprintf("cannot range over %T", x)})
}

func widen(x value) value {
	switch y := x.(type) {
	case bool, int64, uint64, float64, complex128, string, unsafe.Pointer:
		return x
	case int:
		return int64(y)
	case int8:
		return int64(y)
	case int16:
		return int64(y)
	case int32:
		return int64(y)
	case uint:
		return uint64(y)
	case uint8:
		return uint64(y)
	case uint16:
		return uint64(y)
	case uint32:
		return uint64(y)
	case uintptr:
		return uint64(y)
	case float32:
		return float64(y)
	case complex64:
		return complex128(y)
	}
	panic(engineError{fmt.Sprintf("cannot widen %T", x)})
}

// symConv converts a symbolic scalar.
func (fr *frame) symConv(t_dst, t_src types.Type, x *Term) value {
	ut_dst := t_dst.Underlying()
	db, ok := ut_dst.(*types.Basic)
	if !ok {
		panic(engineError{fmt.Sprintf("unsupported symbolic conversion %s -> %s", t_src, t_dst)})
	}
	switch x.sort.k {
	case kStr:
		if db.Kind() == types.String {
			return x
		}
	case kBool:
		return x
	case kBV:
		sw, ssigned, _ := intInfo(t_src)
		if dw, _, ok := intInfo(t_dst); ok {
			switch {
			case dw == sw:
				return x
			case dw < sw:
				return mkOp(fmt.Sprintf("(_ extract %d 0)", dw-1), sortBV(dw), x)
			case ssigned:
				return mkOp(fmt.Sprintf("(_ sign_extend %d)", dw-sw), sortBV(dw), x)
			default:
				return mkOp(fmt.Sprintf("(_ zero_extend %d)", dw-sw), sortBV(dw), x)
			}
		}
		if db.Kind() == types.Float64 {
			rne := &Term{lit: "RNE"}
			if ssigned {
				return mkOp("(_ to_fp 11 53)", sortFP, rne, x)
			}
			return mkOp("(_ to_fp_unsigned 11 53)", sortFP, rne, x)
		}
	case kFP:
		if db.Kind() == types.Float64 {
			return x
		}
		if dw, dsigned, ok := intInfo(t_dst); ok && dw == 64 && dsigned {
			// amd64 semantics: NaN / out-of-range -> 0x8000000000000000
			rtz := &Term{lit: "RTZ"}
			lo := mkFP(-9223372036854775808.0)
			hi := mkFP(9223372036854775808.0)
			inRange := tAnd(mkOp("fp.geq", sortBool, x, lo), mkOp("fp.lt", sortBool, x, hi))
			conv := mkOp("(_ fp.to_sbv 64)", sortBV(64), rtz, x)
			fr.p.noteFPConv(inRange)
			return tIte(inRange, conv, mkBV(64, 1<<63))
		}
	}
	panic(engineError{fmt.Sprintf("unsupported symbolic conversion %s -> %s at sort %s", t_src, t_dst, x.sort)})
}

// conv converts the value x of type t_src to type t_dst.
func (fr *frame) conv(t_dst, t_src types.Type, x value) value {
	if t, ok := x.(*Term); ok {
		return unlit(t_dst, liftRes(fr.symConv(t_dst, t_src, t)))
	}
	ut_src := t_src.Underlying()
	ut_dst := t_dst.Underlying()

	switch ut_src := ut_src.(type) {
	case *types.Pointer:
		switch ut_dst := ut_dst.(type) {
		case *types.Basic:
			if ut_dst.Kind() == types.UnsafePointer {
				return unsafe.Pointer(x.(*value))
			}
		}

	case *types.Slice:
		// []byte or []rune -> string
		switch ut_src.Elem().Underlying().(*types.Basic).Kind() {
		case types.Byte:
			x := x.([]value)
			b := make([]byte, 0, len(x))
			for i := range x {
				bb, ok := x[i].(byte)
				if !ok {
					panic(engineError{"unsupported: string([]byte) with symbolic bytes"})
				}
				b = append(b, bb)
			}
			return string(b)

		case types.Rune:
			x := x.([]value)
			r := make([]rune, 0, len(x))
			for i := range x {
				r = append(r, x[i].(rune))
			}
			return string(r)
		}

	case *types.Basic:
		x = widen(x)

		if ut_src.Info()&types.IsInteger != 0 {
			if ut_dst, ok := ut_dst.(*types.Basic); ok && ut_dst.Kind() == types.String {
				return fmt.Sprintf("%c", x)
			}
		}

		if s, ok := x.(string); ok {
			switch ut_dst := ut_dst.(type) {
			case *types.Slice:
				var res []value
				switch ut_dst.Elem().Underlying().(*types.Basic).Kind() {
				case types.Rune:
					for _, r := range []rune(s) {
						res = append(res, r)
					}
					return res
				case types.Byte:
					for _, b := range []byte(s) {
						res = append(res, b)
					}
					if res == nil {
						res = []value{}
					}
					return res
				}
			case *types.Basic:
				if ut_dst.Kind() == types.String {
					return x.(string)
				}
			}
			break
		}

		if ut_src.Kind() == types.UnsafePointer {
			return zero(t_dst)
		}

		if ut_src.Info()&types.IsComplex != 0 {
			switch ut_dst.(*types.Basic).Kind() {
			case types.Complex64:
				return complex64(x.(complex128))
			case types.Complex128:
				return x.(complex128)
			}
			break
		}

		if ut_src.Info()&types.IsNumeric != 0 {
			kind := ut_dst.(*types.Basic).Kind()
			switch x := x.(type) {
			case int64:
				switch kind {
				case types.Int:
					return int(x)
				case types.Int8:
					return int8(x)
				case types.Int16:
					return int16(x)
				case types.Int32:
					return int32(x)
				case types.Int64:
					return int64(x)
				case types.Uint:
					return uint(x)
				case types.Uint8:
					return uint8(x)
				case types.Uint16:
					return uint16(x)
				case types.Uint32:
					return uint32(x)
				case types.Uint64:
					return uint64(x)
				case types.Uintptr:
					return uintptr(x)
				case types.Float32:
					return float32(x)
				case types.Float64:
					return float64(x)
				}

			case uint64:
				switch kind {
				case types.Int:
					return int(x)
				case types.Int8:
					return int8(x)
				case types.Int16:
					return int16(x)
				case types.Int32:
					return int32(x)
				case types.Int64:
					return int64(x)
				case types.Uint:
					return uint(x)
				case types.Uint8:
					return uint8(x)
				case types.Uint16:
					return uint16(x)
				case types.Uint32:
					return uint32(x)
				case types.Uint64:
					return uint64(x)
				case types.Uintptr:
					return uintptr(x)
				case types.Float32:
					return float32(x)
				case types.Float64:
					return float64(x)
				}

			case float64:
				switch kind {
				case types.Int:
					return f2i(x)
				case types.Int8:
					return int8(x)
				case types.Int16:
					return int16(x)
				case types.Int32:
					return int32(x)
				case types.Int64:
					return int64(f2i(x))
				case types.Uint:
					return uint(x)
				case types.Uint8:
					return uint8(x)
				case types.Uint16:
					return uint16(x)
				case types.Uint32:
					return uint32(x)
				case types.Uint64:
					return uint64(x)
				case types.Uintptr:
					return uintptr(x)
				case types.Float32:
					return float32(x)
				case types.Float64:
					return float64(x)
				}
			}
		}
	}

	panic(engineError{fmt.Sprintf("unsupported conversion: %s  -> %s, dynamic type %T", t_src, t_dst, x)})
}

// f2i mirrors amd64 CVTTSD2SQ: NaN and out-of-range give the "integer indefinite" value.
func f2i(x float64) int {
	if x != x || x >= 9223372036854775808.0 || x < -9223372036854775808.0 {
		return math.MinInt64
	}
	return int(x)
}
