package main

// Happens-before race detection for paths that run threads (threads.go).
// Every load and store of a memory cell (*value) and every map operation
// performed by code of the repository (not by harness / model code, whose
// files are the zz_verif_ overlays) is checked against vector clocks:
// two accesses of the same cell or map by different threads, at least one a
// write, that are not ordered by goroutine start, a mutex hand-over
// (unlock -> later lock of the same mutex, RWMutex aware) or WaitGroup
// Done -> Wait are reported as "data-race". The judgement is per explored
// schedule; the schedule enumeration of threads.go supplies both orders of
// every pair of critical sections.

import (
	"fmt"
	"path/filepath"
	"strings"

	"golang.org/x/tools/go/ssa"
)

const maxThreads = 8

type vclock [maxThreads]uint32

func (a *vclock) join(b *vclock) {
	for i := range a {
		if b[i] > a[i] {
			a[i] = b[i]
		}
	}
}

type raceCell struct {
	hasW bool
	wT   int
	wC   uint32
	wPos string
	r    vclock
	rPos [maxThreads]string
}

type raceState struct {
	cells    map[interface{}]*raceCell
	relW     map[*value]*vclock // released by writers (Unlock)
	relR     map[*value]*vclock // released by readers (RUnlock)
	wgVC     map[*value]*vclock
	reported int
	harness  map[*ssa.Function]bool
}

func newRaceState() *raceState {
	return &raceState{cells: map[interface{}]*raceCell{}, relW: map[*value]*vclock{}, relR: map[*value]*vclock{},
		wgVC: map[*value]*vclock{}, harness: map[*ssa.Function]bool{}}
}

func (rs *raceState) isHarnessCode(fr *frame) bool {
	fn := fr.fn
	if h, ok := rs.harness[fn]; ok {
		return h
	}
	top := fn
	for top.Parent() != nil {
		top = top.Parent()
	}
	file := fr.p.eng.prog.Fset.Position(top.Pos()).Filename
	h := strings.HasPrefix(filepath.Base(file), "zz_verif_") || strings.Contains(file, "/zzverif/")
	if strings.Contains(file, "/zzverif/selftest/") {
		h = false // the selftest programs play the part of repository code
	}
	rs.harness[fn] = h
	return h
}

func (p *Path) raceOnSpawn(parent, child *thread) {
	child.vc = parent.vc
	child.vc[child.id] = 1
	parent.vc[parent.id]++
}

func (p *Path) raceAcquire(mp *value, write bool) {
	if p.thr == nil {
		return
	}
	rs, t := p.thr.race, p.thr.cur
	if v := rs.relW[mp]; v != nil {
		t.vc.join(v)
	}
	if write {
		if v := rs.relR[mp]; v != nil {
			t.vc.join(v)
		}
	}
}

func (p *Path) raceRelease(mp *value, write bool) {
	if p.thr == nil {
		return
	}
	rs, t := p.thr.race, p.thr.cur
	m := rs.relR
	if write {
		m = rs.relW
	}
	v := m[mp]
	if v == nil {
		v = &vclock{}
		m[mp] = v
	}
	if write {
		*v = t.vc
	} else {
		v.join(&t.vc)
	}
	t.vc[t.id]++
}

func (p *Path) raceWgDone(mp *value) {
	if p.thr == nil {
		return
	}
	rs, t := p.thr.race, p.thr.cur
	v := rs.wgVC[mp]
	if v == nil {
		v = &vclock{}
		rs.wgVC[mp] = v
	}
	v.join(&t.vc)
	t.vc[t.id]++
}

func (p *Path) raceWgWaited(mp *value) {
	if p.thr == nil {
		return
	}
	if v := p.thr.race.wgVC[mp]; v != nil {
		p.thr.cur.vc.join(v)
	}
}

// raceAccess records an access of key (a *value cell or a *smap) by the
// current thread.
func (p *Path) raceAccess(fr *frame, key interface{}, write bool) {
	ts := p.thr
	rs := ts.race
	if rs.reported >= 3 || rs.isHarnessCode(fr) {
		return
	}
	t := ts.cur
	c := rs.cells[key]
	if c == nil {
		c = &raceCell{}
		rs.cells[key] = c
	}
	pos := ""
	conflict := func(what, otherPos string, other int) {
		rs.reported++
		kind := "memory cell"
		if _, ok := key.(*smap); ok {
			kind = "map"
		}
		acc := "read"
		if write {
			acc = "write"
		}
		p.violationNoAbort("data-race", fmt.Sprintf("%s of a %s at %s (goroutine %d) is not ordered with the %s at %s (goroutine %d): no lock hand-over or join lies between them",
			acc, kind, fr.posOf(fr.cur), t.id, what, otherPos, other))
	}
	// write-{read,write} conflict with the last write
	if c.hasW && c.wT != t.id && c.wC > t.vc[c.wT] {
		conflict("write", c.wPos, c.wT)
		return
	}
	if write {
		for o := 0; o < maxThreads; o++ {
			if o != t.id && c.r[o] > t.vc[o] {
				conflict("read", c.rPos[o], o)
				return
			}
		}
		pos = fr.posOf(fr.cur)
		c.hasW, c.wT, c.wC, c.wPos = true, t.id, t.vc[t.id], pos
	} else {
		if c.r[t.id] != t.vc[t.id] {
			c.r[t.id] = t.vc[t.id]
			c.rPos[t.id] = fr.posOf(fr.cur)
		}
	}
}
