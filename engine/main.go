package main

import (
	"crypto/sha256"
	"encoding/json"
	"flag"
	"fmt"
	"go/types"
	"os"
	"os/exec"
	"path/filepath"
	"regexp"
	"runtime"
	"runtime/pprof"
	"sort"
	"strconv"
	"strings"
	"sync"
	"sync/atomic"
	"time"

	"golang.org/x/tools/go/packages"
	"golang.org/x/tools/go/ssa"
	"golang.org/x/tools/go/ssa/ssautil"
)

// repoDir is the tree under analysis: /repo, or $GOSYM_REPO (used to run the
// checks against a scratch worktree carrying a seeded change).
var repoDir = func() string {
	if d := os.Getenv("GOSYM_REPO"); d != "" {
		return d
	}
	return "/repo"
}()

const (
	verifDir   = "/verif"
	harnessDir = "/verif/harness"
	outDir     = "/verif/out"
)

type Engine struct {
	prog  *ssa.Program
	pkgs  map[string]*ssa.Package // by import path
	stubs map[string]*ssa.Function
	condStubs map[string][]condStub

	unwind          int
	maxSteps        int64
	maxPaths        int
	solverBin       string
	solverTimeoutMs int
	xcheck          bool
	xsolvers        []string
	verbose         bool
	lockset         *locksetState
	noFallback      bool
	fallbackTimeoutS int

	mu        sync.Mutex
	funcsSeen map[*ssa.Function]int64
	known     []KnownFinding
	loadTime  time.Duration
}

func (e *Engine) noteFunc(fn *ssa.Function) {
	e.mu.Lock()
	e.funcsSeen[fn]++
	e.mu.Unlock()
}

type KnownFinding struct {
	Property string `json:"property"`
	Harness  string `json:"harness"`
	Label    string `json:"label"`
	Class    string `json:"class"`
	What     string `json:"what"`
}

type knownFile struct {
	Findings []KnownFinding `json:"findings"`
	Fixed    []string       `json:"fixed"`
}

func (e *Engine) knownClasses(prop, harness, label string) []KnownFinding {
	var out []KnownFinding
	for _, k := range e.known {
		if k.Property == prop && (k.Harness == "" || k.Harness == harness) && (k.Label == "" || k.Label == label) {
			out = append(out, k)
		}
	}
	return out
}

// ---------------------------------------------------------------------------
// property table

type HarnessSpec struct {
	Pkg      string         `json:"pkg"`  // relative to the module root, e.g. "server/upstream"
	Func     string         `json:"func"` // Harness_…
	Native   bool           `json:"native"`
	Quick    map[string]int `json:"quick"`
	Thorough map[string]int `json:"thorough"`
	Covers   []string       `json:"covers"`
	Unwind   int            `json:"unwind"`
	MaxPaths int            `json:"max_paths"`
	OnlyTier string         `json:"only_tier"`
	Lockset  bool           `json:"lockset"`
	Note     string         `json:"note"`
}

type PropSpec struct {
	Harnesses   []HarnessSpec `json:"harnesses"`
	Assumptions []string      `json:"assumptions"`
	Stubs       []string      `json:"stubs"`
	Bounds      string        `json:"bounds"`
}

func loadProps() map[string]*PropSpec {
	b, err := os.ReadFile(filepath.Join(harnessDir, "props.json"))
	if err != nil {
		fatal(2, "cannot read props.json: %v", err)
	}
	var m map[string]*PropSpec
	if err := json.Unmarshal(b, &m); err != nil {
		fatal(2, "props.json: %v", err)
	}
	return m
}

func fatal(code int, format string, args ...interface{}) {
	fmt.Fprintf(os.Stderr, "gosym: "+format+"\n", args...)
	os.Exit(code)
}

// ---------------------------------------------------------------------------
// loading

// overlayFiles maps /verif/harness/<rel>/<f>.go to /repo/<rel>/zz_verif_<f>.go.
func overlayFiles() map[string]string {
	m := map[string]string{}
	filepath.Walk(harnessDir, func(path string, info os.FileInfo, err error) error {
		if err != nil || info.IsDir() || !strings.HasSuffix(path, ".go") {
			return nil
		}
		rel, _ := filepath.Rel(harnessDir, path)
		dir, file := filepath.Split(rel)
		m[filepath.Join(repoDir, dir, "zz_verif_"+file)] = path
		return nil
	})
	return m
}

var stubRe = regexp.MustCompile(`(?m)^//gosym:stub\s+(\S+)\s*=\s*(\S+)(?:\s+if\s+(\S+))?\s*$`)

func goEnv() []string {
	env := os.Environ()
	env = append(env, "GOFLAGS=-mod=mod", "GOPROXY=off", "GOTOOLCHAIN=auto")
	return env
}

func loadEngine(pkgRels []string) *Engine {
	t0 := time.Now()
	ov := overlayFiles()
	overlay := map[string][]byte{}
	type stubDecl struct{ target, fn, file, tag string }
	var stubDecls []stubDecl
	for virt, real := range ov {
		b, err := os.ReadFile(real)
		if err != nil {
			fatal(2, "read %s: %v", real, err)
		}
		overlay[virt] = b
		for _, m := range stubRe.FindAllStringSubmatch(string(b), -1) {
			stubDecls = append(stubDecls, stubDecl{m[1], m[2], virt, m[3]})
		}
	}
	cfg := &packages.Config{
		Mode:       packages.LoadAllSyntax,
		Dir:        repoDir,
		BuildFlags: []string{"-tags=verif"},
		Env:        goEnv(),
		Overlay:    overlay,
	}
	var patterns []string
	for _, r := range pkgRels {
		patterns = append(patterns, "./"+r)
	}
	pkgs, err := packages.Load(cfg, patterns...)
	if err != nil {
		fatal(2, "packages.Load: %v", err)
	}
	nerr := 0
	packages.Visit(pkgs, nil, func(p *packages.Package) {
		for _, e := range p.Errors {
			fmt.Fprintln(os.Stderr, "load error:", e)
			nerr++
		}
	})
	if nerr > 0 {
		fatal(2, "harness or repository does not compile (%d errors)", nerr)
	}
	prog, _ := ssautil.AllPackages(pkgs, ssa.InstantiateGenerics)
	prog.Build()
	e := &Engine{
		prog:            prog,
		pkgs:            map[string]*ssa.Package{},
		stubs:           map[string]*ssa.Function{},
		condStubs:       map[string][]condStub{},
		funcsSeen:       map[*ssa.Function]int64{},
		unwind:          64,
		maxSteps:        20_000_000,
		maxPaths:        2_000_000,
		solverBin:       "/usr/bin/z3",
		solverTimeoutMs: 10000,
		fallbackTimeoutS: 300,
		xsolvers:        []string{"z3-new", "cvc5"},
	}
	for _, p := range prog.AllPackages() {
		e.pkgs[p.Pkg.Path()] = p
	}
	if ep := prog.ImportedPackage("errors"); ep != nil {
		if tn := ep.Type("errorString"); tn != nil {
			errorStringPtr = types.NewPointer(tn.Type())
		}
	}
	// resolve stub declarations
	for _, d := range stubDecls {
		rel, _ := filepath.Rel(repoDir, filepath.Dir(d.file))
		sp := e.pkgs[pikoMod+"/"+rel]
		if sp == nil {
			continue // package of this harness file not loaded for this check
		}
		fn := sp.Func(d.fn)
		if fn == nil {
			fatal(2, "stub function %s not found in %s", d.fn, rel)
		}
		if d.tag != "" {
			e.condStubs[d.target] = append(e.condStubs[d.target], condStub{d.tag, fn})
			continue
		}
		if prev, dup := e.stubs[d.target]; dup && prev != fn {
			fatal(2, "two unconditional stubs for %s (%s and %s): make them conditional with 'if <tag>'", d.target, prev, fn)
		}
		e.stubs[d.target] = fn
	}
	// known findings
	if b, err := os.ReadFile(filepath.Join(verifDir, "known_findings.json")); err == nil {
		var kf knownFile
		if err := json.Unmarshal(b, &kf); err != nil {
			fatal(2, "known_findings.json: %v", err)
		}
		e.known = kf.Findings
	}
	e.loadTime = time.Since(t0)
	return e
}

// ---------------------------------------------------------------------------
// check command

type harnessReport struct {
	Name       string                 `json:"harness"`
	Pkg        string                 `json:"pkg"`
	Params     map[string]int         `json:"bounds"`
	Unwind     int                    `json:"unwind"`
	Paths      int64                  `json:"paths"`
	Outcomes   map[string]int64       `json:"path_outcomes"`
	Asserts    map[string]*labelStat  `json:"asserts"`
	Covers     map[string]int64       `json:"covers"`
	Known      map[string]int64       `json:"known_findings,omitempty"`
	Undecided  []string               `json:"undecided,omitempty"`
	Inexact    int64                  `json:"paths_with_unknown_feasibility"`
	Fallbacks  map[string]int64       `json:"fallback_answers,omitempty"`
	Steps      int64                  `json:"ssa_instructions_executed"`
	MaxDepth   int                    `json:"max_decision_depth"`
	WallS      float64                `json:"wall_s"`
	NativeRepl bool                   `json:"native_replay_available"`
	Note       string                 `json:"note,omitempty"`
	LockOrder  []string               `json:"lock_order_edges,omitempty"`
	LockStats  map[string]int64       `json:"lock_recorder,omitempty"`
}

func main() {
	if len(os.Args) < 2 {
		fatal(2, "usage: gosym check <ID> [--tier quick|thorough] | replay <file> | selftest | list")
	}
	os.MkdirAll(outDir, 0o755)
	switch os.Args[1] {
	case "check":
		os.Exit(cmdCheck(os.Args[2:]))
	case "replay":
		os.Exit(cmdReplay(os.Args[2:]))
	case "selftest":
		os.Exit(cmdSelftest(os.Args[2:]))
	case "list":
		props := loadProps()
		var ids []string
		for id := range props {
			ids = append(ids, id)
		}
		sort.Strings(ids)
		for _, id := range ids {
			for _, h := range props[id].Harnesses {
				fmt.Printf("%s %s %s\n", id, h.Pkg, h.Func)
			}
		}
	default:
		fatal(2, "unknown command %s", os.Args[1])
	}
}

func cmdCheck(args []string) int {
	fs := flag.NewFlagSet("check", flag.ExitOnError)
	tier := fs.String("tier", "", "quick|thorough")
	only := fs.String("harness", "", "run only this harness")
	verbose := fs.Bool("v", false, "verbose")
	workers := fs.Int("workers", runtime.NumCPU(), "worker count")
	noReplay := fs.Bool("no-replay", false, "skip native replay")
	cpuprofile := fs.String("cpuprofile", "", "write a CPU profile of the engine")
	var id string
	if len(args) > 0 && !strings.HasPrefix(args[0], "-") {
		id = args[0]
		args = args[1:]
	}
	fs.Parse(args)
	if id == "" && fs.NArg() > 0 {
		id = fs.Arg(0)
	}
	if *tier == "" {
		*tier = os.Getenv("VERIF_TIER")
	}
	if *tier == "" {
		*tier = "quick"
	}
	seed := 0
	if s := os.Getenv("VERIF_SEED"); s != "" {
		seed, _ = strconv.Atoi(s)
	}
	if *cpuprofile != "" {
		f, err := os.Create(*cpuprofile)
		if err == nil {
			pprof.StartCPUProfile(f)
			defer pprof.StopCPUProfile()
		}
	}
	props := loadProps()
	spec := props[id]
	if spec == nil {
		fatal(2, "unknown property %q", id)
	}
	t0 := time.Now()
	pkgSet := map[string]bool{}
	for _, h := range spec.Harnesses {
		pkgSet[h.Pkg] = true
	}
	var pkgRels []string
	for p := range pkgSet {
		pkgRels = append(pkgRels, p)
	}
	sort.Strings(pkgRels)
	eng := loadEngine(pkgRels)
	eng.verbose = *verbose
	eng.xcheck = *tier == "thorough"

	var reports []harnessReport
	var allViol []*Violation
	knownSeen := map[string]string{}
	var broken []string
	var samples []interface{}
	var totalPaths, totalSteps int64
	validated := 0
	for _, h := range spec.Harnesses {
		if *only != "" && h.Func != *only {
			continue
		}
		if h.OnlyTier != "" && h.OnlyTier != *tier {
			continue
		}
		sp := eng.pkgs[pikoMod+"/"+h.Pkg]
		if sp == nil {
			broken = append(broken, "package not loaded: "+h.Pkg)
			continue
		}
		entry := sp.Func(h.Func)
		if entry == nil {
			broken = append(broken, "harness not found: "+h.Func)
			continue
		}
		params := h.Quick
		if *tier == "thorough" && h.Thorough != nil {
			params = map[string]int{}
			for k, v := range h.Quick {
				params[k] = v
			}
			for k, v := range h.Thorough {
				params[k] = v
			}
		}
		if params == nil {
			params = map[string]int{}
		}
		eng.unwind = 64
		if h.Unwind > 0 {
			eng.unwind = h.Unwind
		}
		if u, ok := params["unwind"]; ok {
			eng.unwind = u
		}
		eng.maxPaths = 2_000_000
		if h.MaxPaths > 0 {
			eng.maxPaths = h.MaxPaths
		}
		eng.lockset = nil
		if h.Lockset {
			eng.lockset = newLockset()
		}
		run := &HarnessRun{eng: eng, prop: id, name: h.Func, pkg: h.Pkg, entry: entry, params: params, native: h.Native}
		if h.Native && !*noReplay {
			run.validateWant, run.validateEvery = 6, 40
			if *tier == "thorough" {
				run.validateWant, run.validateEvery = 40, 25
			}
		}
		run.execute(*workers)
		if len(run.natSamples) > 0 && run.fatal == "" {
			ok, problems := validateNative(h.Pkg, run.natSamples)
			validated += ok
			for _, pr := range problems {
				broken = append(broken, "translator validation: "+pr)
			}
		}
		rep := harnessReport{
			Name: h.Func, Pkg: h.Pkg, Params: params, Unwind: eng.unwind, Paths: run.paths, Outcomes: run.aborts,
			Asserts: run.asserts, Covers: run.covers, Known: run.known, Undecided: run.undecided,
			Inexact: run.inexact, Fallbacks: run.fallbacks, Steps: run.steps, MaxDepth: run.maxDepth, WallS: run.wall.Seconds(),
			NativeRepl: h.Native, Note: h.Note,
		}
		if eng.lockset != nil {
			rep.LockOrder = eng.lockset.edgeList()
			rep.LockStats = map[string]int64{"guarded_field_accesses_checked": eng.lockset.accesses, "lock_acquisitions": eng.lockset.acquires, "unguarded_accesses": int64(len(eng.lockset.unguarded))}
		}
		reports = append(reports, rep)
		totalPaths += run.paths
		totalSteps += run.steps
		for _, s := range run.samples {
			s["harness"] = h.Func
			samples = append(samples, s)
		}
		if run.fatal != "" {
			broken = append(broken, h.Func+": "+run.fatal)
		}
		for _, u := range run.undecided {
			broken = append(broken, h.Func+": "+u)
		}
		if run.inexact > 0 {
			broken = append(broken, fmt.Sprintf("%s: %d paths had an undecided (unknown) feasibility query", h.Func, run.inexact))
		}
		for _, c := range h.Covers {
			if run.covers[c] == 0 {
				broken = append(broken, fmt.Sprintf("%s: cover %q never reached (vacuity guard)", h.Func, c))
			}
		}
		if run.aborts["completed"] == 0 && len(run.violations) == 0 && len(run.known) == 0 {
			broken = append(broken, h.Func+": no path ran to completion (vacuous harness)")
		}
		if eng.lockset != nil {
			for _, v := range eng.lockset.report() {
				allViol = append(allViol, &Violation{Harness: h.Func, Property: id, Label: v.label, Detail: v.detail, Pkg: h.Pkg, Replayed: "static-lock-log"})
			}
		}
		for c, what := range run.knownWhat {
			knownSeen[c] = what
		}
		allViol = append(allViol, run.violations...)
		if *verbose {
			b, _ := json.MarshalIndent(rep, "", " ")
			fmt.Fprintln(os.Stderr, string(b))
		}
		fmt.Fprintf(os.Stderr, "[%s] %s: paths=%d outcomes=%v violations=%d wall=%.1fs\n", id, h.Func, run.paths, run.aborts, len(run.violations), run.wall.Seconds())
	}

	// replay counterexamples against the native build
	confirmed := 0
	replays := 0
	var violLines []string
	seenLabel := map[string]int{}
	for i, v := range allViol {
		key := v.Harness + "/" + v.Label
		seenLabel[key]++
		if seenLabel[key] > 2 {
			continue
		}
		if v.Replayed == "static-lock-log" {
			path := filepath.Join(outDir, replaySub(), fmt.Sprintf("%s-%d.json", id, i))
			writeJSON(path, v)
			violLines = append(violLines, fmt.Sprintf("VIOLATION property=%s replay=%s harness=%s label=%s detail=%q", id, path, v.Harness, v.Label, v.Detail))
			confirmed++
			continue
		}
		path := filepath.Join(outDir, replaySub(), fmt.Sprintf("%s-%d.json", id, i))
		writeJSON(path, v)
		var native bool
		for _, h := range spec.Harnesses {
			if h.Func == v.Harness {
				native = h.Native
			}
		}
		ok, how, out := true, "not-replayed", ""
		if !*noReplay {
			replays++
			// findings of the engine's own monitors (lock recorder, thread
			// model, unwinding) are not observable by a native run of the
			// harness: they replay in the engine's concrete mode
			switch v.Label {
			case "locks-held-at-exit", "self-deadlock", "recursive-read-lock", "deadlock", "data-race", "lockset", "unwind":
				native = false
			}
			if native {
				ok, out = nativeReplay(v, path)
				how = "native"
			} else {
				ok, out = engineReplay(eng, v)
				how = "engine-concrete"
			}
		}
		v.Replayed = how
		writeJSON(path, v)
		if ok {
			confirmed++
			violLines = append(violLines, fmt.Sprintf("VIOLATION property=%s replay=%s harness=%s label=%s replayed=%s detail=%q", id, path, v.Harness, v.Label, how, v.Detail))
		} else {
			broken = append(broken, fmt.Sprintf("%s: counterexample for %s did not reproduce by %s replay (encoding or stub error): %s", v.Harness, v.Label, how, firstLines(out, 6)))
		}
	}

	// evidence
	wall := time.Since(t0).Seconds()
	ev := map[string]interface{}{
		"property_id": id,
		"tier":        *tier,
		"seed":        seed,
		"level":       "model_checking",
		"wall_s":      wall,
		"violations":  confirmed,
		"assumptions": spec.Assumptions,
		"coverage": map[string]interface{}{
			"states":                        max64(totalPaths, 0),
			"transitions":                   totalSteps,
			"traces_validated_against_impl": replays + validated,
			"native_differential_replays":   validated,
			"samples":                       samples,
			"exhaustive":                    false,
			"explanation":                   "bounded symbolic execution of the real SSA of /repo's working tree; states = symbolic paths explored to their end, transitions = SSA instructions executed; every branch on a symbolic condition was decided by the solver; bounds: " + spec.Bounds,
			"harnesses":                     reports,
			"functions_encoded":             eng.functionsReport(),
			"solver": map[string]interface{}{
				"binary":          eng.solverBin,
				"queries":         atomic.LoadInt64(&gstats.Queries),
				"sat":             atomic.LoadInt64(&gstats.Sat),
				"unsat":           atomic.LoadInt64(&gstats.Unsat),
				"unknown":         atomic.LoadInt64(&gstats.Unknown),
				"errors":          atomic.LoadInt64(&gstats.Errors),
				"solver_time_s":   float64(atomic.LoadInt64(&gstats.SolverNs)) / 1e9,
				"cross_checks":    atomic.LoadInt64(&gstats.XCheck),
				"cross_disagree":  atomic.LoadInt64(&gstats.XDisagree),
				"cross_unknown":   atomic.LoadInt64(&gstats.XUnknown),
				"cross_solvers":   eng.xsolversUsed(),
			},
			"stubs":       spec.Stubs,
			"load_time_s": eng.loadTime.Seconds(),
			"fallback_portfolio": map[string]interface{}{
				"queries": atomic.LoadInt64(&fbStats.Tried), "unsat": atomic.LoadInt64(&fbStats.Unsat), "sat": atomic.LoadInt64(&fbStats.Sat),
				"unknown": atomic.LoadInt64(&fbStats.Unknown), "time_s": float64(atomic.LoadInt64(&fbStats.Ns)) / 1e9,
				"note": "queries the incremental z3 answered unknown, re-run one-shot on z3 4.8.12, z3 5.1 and cvc5 (first decisive answer)",
			},
			"broken":      broken,
			"known_findings_reported": knownSeen,
		},
	}
	if len(samples) == 0 {
		ev["coverage"].(map[string]interface{})["samples"] = []interface{}{"no completed path"}
	}
	if totalPaths == 0 {
		ev["coverage"].(map[string]interface{})["states"] = 1
		ev["coverage"].(map[string]interface{})["transitions"] = 1
	}
	evDir := filepath.Join(verifDir, "evidence")
	if os.Getenv("GOSYM_REPO") != "" {
		evDir = filepath.Join(outDir, "alt-evidence") // never overwrite the real evidence from a scratch tree
	}
	os.MkdirAll(evDir, 0o755)
	writeJSON(filepath.Join(evDir, id+".json"), ev)

	var kcs []string
	for c := range knownSeen {
		kcs = append(kcs, c)
	}
	sort.Strings(kcs)
	for _, c := range kcs {
		fmt.Printf("KNOWN-FINDING: property=%s %s: %s\n", id, c, knownSeen[c])
	}
	for _, l := range violLines {
		fmt.Println(l)
	}
	if len(violLines) > 0 {
		return 1
	}
	if len(broken) > 0 {
		for _, b := range broken {
			fmt.Fprintln(os.Stderr, "UNDECIDED:", b)
		}
		fmt.Printf("UNDECIDED property=%s (%d reasons; see stderr / evidence)\n", id, len(broken))
		return 2
	}
	fmt.Printf("HELD property=%s tier=%s paths=%d queries=%d wall=%.1fs\n", id, *tier, totalPaths, atomic.LoadInt64(&gstats.Queries), wall)
	return 0
}

func replaySub() string {
	if os.Getenv("GOSYM_REPO") != "" {
		return fmt.Sprintf("alt-replay-%d", os.Getpid())
	}
	return "replay"
}

func (e *Engine) xsolversUsed() []string {
	if e.xcheck {
		return e.xsolvers
	}
	return nil
}

func max64(a, b int64) int64 {
	if a > b {
		return a
	}
	return b
}

func firstLines(s string, n int) string {
	lines := strings.Split(strings.TrimSpace(s), "\n")
	if len(lines) > n {
		lines = lines[len(lines)-n:]
	}
	return strings.Join(lines, " | ")
}

func writeJSON(path string, v interface{}) {
	os.MkdirAll(filepath.Dir(path), 0o755)
	b, err := json.MarshalIndent(v, "", " ")
	if err != nil {
		fatal(2, "marshal %s: %v", path, err)
	}
	if err := os.WriteFile(path, b, 0o644); err != nil {
		fatal(2, "write %s: %v", path, err)
	}
}

// functionsReport lists the piko functions whose SSA was executed.
func (e *Engine) functionsReport() []map[string]interface{} {
	type rec struct {
		name, file string
		calls      int64
	}
	var recs []rec
	hashes := map[string]string{}
	for fn, n := range e.funcsSeen {
		path := pkgPathOf(fn)
		if !isPikoPath(path) || strings.HasSuffix(path, "/zzverif") {
			continue
		}
		pos := e.prog.Fset.Position(fn.Pos())
		if strings.Contains(pos.Filename, "zz_verif_") {
			continue
		}
		recs = append(recs, rec{fn.String(), pos.Filename, n})
	}
	sort.Slice(recs, func(i, j int) bool { return recs[i].name < recs[j].name })
	var out []map[string]interface{}
	for _, r := range recs {
		if _, ok := hashes[r.file]; !ok && r.file != "" {
			if b, err := os.ReadFile(r.file); err == nil {
				hashes[r.file] = fmt.Sprintf("%x", sha256.Sum256(b))[:16]
			}
		}
		out = append(out, map[string]interface{}{"func": strings.TrimPrefix(r.name, pikoMod+"/"), "file": strings.TrimPrefix(r.file, repoDir+"/"), "sha256_16": hashes[r.file], "calls": r.calls})
	}
	return out
}

// ---------------------------------------------------------------------------
// replay

func writeOverlayJSON(extra map[string]string) string {
	ov := overlayFiles()
	for k, v := range extra {
		ov[k] = v
	}
	path := filepath.Join(outDir, fmt.Sprintf("overlay-%d.json", os.Getpid()))
	writeJSON(path, map[string]interface{}{"Replace": ov})
	return path
}

// genReplayTest writes the generated TestGosymReplay file for a package.
func genReplayTest(pkgRel string) (virt, real string) {
	dir := filepath.Join(harnessDir, pkgRel)
	entries, _ := os.ReadDir(dir)
	hre := regexp.MustCompile(`(?m)^func (Harness_\w+)\(\)`)
	pkgre := regexp.MustCompile(`(?m)^package (\w+)`)
	var names []string
	pkgName := ""
	for _, ent := range entries {
		if !strings.HasSuffix(ent.Name(), ".go") {
			continue
		}
		b, _ := os.ReadFile(filepath.Join(dir, ent.Name()))
		for _, m := range hre.FindAllStringSubmatch(string(b), -1) {
			names = append(names, m[1])
		}
		if m := pkgre.FindStringSubmatch(string(b)); m != nil && !strings.HasSuffix(m[1], "_test") {
			pkgName = m[1]
		}
	}
	sort.Strings(names)
	var sb strings.Builder
	sb.WriteString("//go:build verif\n\npackage " + pkgName + "\n\nimport (\n\t\"testing\"\n\n\tv \"" + pikoMod + "/zzverif\"\n)\n\n")
	sb.WriteString("func TestGosymReplay(t *testing.T) {\n\tv.Replay(t, map[string]func(){\n")
	for _, n := range names {
		fmt.Fprintf(&sb, "\t\t%q: %s,\n", n, n)
	}
	sb.WriteString("\t})\n}\n")
	real = filepath.Join(outDir, "gen", pkgRel, "zz_verif_replay_test.go")
	os.MkdirAll(filepath.Dir(real), 0o755)
	os.WriteFile(real, []byte(sb.String()), 0o644)
	virt = filepath.Join(repoDir, pkgRel, "zz_verif_replay_test.go")
	return
}

// nativeReplay runs the harness natively with the counterexample's inputs and
// reports whether the same assertion fails.
func nativeReplay(v *Violation, path string) (bool, string) {
	virt, real := genReplayTest(v.Pkg)
	ovPath := writeOverlayJSON(map[string]string{virt: real})
	defer os.Remove(ovPath)
	attempts := 1
	if v.Params["maporder_retries"] > 0 {
		attempts = v.Params["maporder_retries"]
	}
	var out []byte
	for i := 0; i < attempts; i++ {
		cmd := exec.Command("go", "test", "-tags", "verif", "-vet=off", "-count=1", "-v", "-overlay", ovPath, "-run", "^TestGosymReplay$", "./"+v.Pkg)
		cmd.Dir = repoDir
		cmd.Env = append(goEnv(), "GOSYM_REPLAY="+path)
		out, _ = cmd.CombinedOutput()
		s := string(out)
		want := "GOSYM-REPLAY: assert-failed label=" + v.Label + "\n"
		if strings.Contains(s, want) {
			return true, s
		}
		if v.Label == "no-panic" && strings.Contains(s, "GOSYM-REPLAY: panic") {
			return true, s
		}
	}
	return false, string(out)
}

// engineReplay re-executes the harness in the SSA interpreter with the
// counterexample's concrete inputs (no solver decisions).
func engineReplay(eng *Engine, v *Violation) (bool, string) {
	sp := eng.pkgs[pikoMod+"/"+v.Pkg]
	if sp == nil {
		return false, "package not loaded"
	}
	entry := sp.Func(v.Harness)
	if entry == nil {
		return false, "no harness"
	}
	run := &HarnessRun{eng: eng, prop: v.Property, name: v.Harness, pkg: v.Pkg, entry: entry, params: v.Params}
	saveKnown := eng.known
	eng.known = nil
	run.executeConcrete(v.Inputs)
	eng.known = saveKnown
	if run.fatal != "" {
		return false, "engine replay failed: " + run.fatal
	}
	for _, cv := range run.violations {
		if cv.Label == v.Label {
			return true, ""
		}
	}
	return false, fmt.Sprintf("concrete replay outcomes=%v violations=%d", run.aborts, len(run.violations))
}

func cmdReplay(args []string) int {
	if len(args) < 1 {
		fatal(2, "usage: gosym replay <file>")
	}
	b, err := os.ReadFile(args[0])
	if err != nil {
		fatal(2, "%v", err)
	}
	var v Violation
	if err := json.Unmarshal(b, &v); err != nil {
		fatal(2, "%v", err)
	}
	props := loadProps()
	native := false
	if spec := props[v.Property]; spec != nil {
		for _, h := range spec.Harnesses {
			if h.Func == v.Harness {
				native = h.Native
			}
		}
	}
	var ok bool
	var out string
	if native {
		ok, out = nativeReplay(&v, args[0])
	} else {
		eng := loadEngine([]string{v.Pkg})
		ok, out = engineReplay(eng, &v)
	}
	fmt.Println(out)
	if ok {
		fmt.Printf("VIOLATION property=%s replay=%s harness=%s label=%s (reproduced)\n", v.Property, args[0], v.Harness, v.Label)
		return 1
	}
	fmt.Println("counterexample did not reproduce")
	return 0
}
