package main

// Engine intrinsics: models of standard-library functions that are not
// interpreted from their SSA. Each model's semantics are stated in DESIGN.md §2.4.

import (
	"fmt"
	"go/token"
	"go/types"
	"math"
	"net"
	"net/textproto"
	"strconv"
	"strings"

	"golang.org/x/tools/go/ssa"
)

var intrinsics map[string]intrinsicFn

// builtinFn is a callable engine-side function value (e.g. context cancel funcs).
type builtinFn struct {
	h func(fr *frame, args []value) value
}

func init() {
	intrinsics = map[string]intrinsicFn{
		"github.com/gin-gonic/gin.SetMode": func(fr *frame, a []value) value { return nil },

		// sync
		"(*sync.Mutex).Lock":      func(fr *frame, a []value) value { return fr.p.lock(fr, a[0], true) },
		"(*sync.Mutex).Unlock":    func(fr *frame, a []value) value { return fr.p.unlock(fr, a[0], true) },
		"(*sync.RWMutex).Lock":    func(fr *frame, a []value) value { return fr.p.lock(fr, a[0], true) },
		"(*sync.RWMutex).Unlock":  func(fr *frame, a []value) value { return fr.p.unlock(fr, a[0], true) },
		"(*sync.RWMutex).RLock":   func(fr *frame, a []value) value { return fr.p.lock(fr, a[0], false) },
		"(*sync.RWMutex).RUnlock": func(fr *frame, a []value) value { return fr.p.unlock(fr, a[0], false) },
		"(*sync.Once).Do":         intrOnceDo,
		// WaitGroups are inert (single-threaded engine; nothing is ever outstanding)
		"(*sync.WaitGroup).Wait": func(fr *frame, a []value) value { fr.p.wgWait(a[0]); return nil },
		"(*sync.WaitGroup).Add":  func(fr *frame, a []value) value { fr.p.wgAdd(a[0], int(asInt64(a[1]))); return nil },
		"(*sync.WaitGroup).Done": func(fr *frame, a []value) value { fr.p.wgAdd(a[0], -1); return nil },

		// time
		"time.Now":                     intrTimeNow,
		"time.Since":                   func(fr *frame, a []value) value { return timeSub(fr, intrTimeNow(fr, nil), a[0]) },
		"time.Unix":                    intrTimeUnix,
		"(time.Time).Add":              intrTimeAdd,
		"(time.Time).Sub":              func(fr *frame, a []value) value { return timeSub(fr, a[0], a[1]) },
		"(time.Time).After":            func(fr *frame, a []value) value { return timeCmp(fr, token.GTR, a[0], a[1]) },
		"(time.Time).Before":           func(fr *frame, a []value) value { return timeCmp(fr, token.LSS, a[0], a[1]) },
		"(time.Time).Equal":            func(fr *frame, a []value) value { return timeCmp(fr, token.EQL, a[0], a[1]) },
		"(time.Time).IsZero":           func(fr *frame, a []value) value { return equalsV(fr, types.Typ[types.Int64], timeExt(a[0]), int64(0)) },
		"(time.Time).UnixNano":         func(fr *frame, a []value) value { return timeExt(a[0]) },
		"(time.Time).String":           func(fr *frame, a []value) value { return "<time>" },
		"(time.Duration).Nanoseconds":  func(fr *frame, a []value) value { return a[0] },
		"(time.Duration).Milliseconds": func(fr *frame, a []value) value { return durDiv(fr, a[0], 1000000) },
		"(time.Duration).Microseconds": func(fr *frame, a []value) value { return durDiv(fr, a[0], 1000) },
		"(time.Duration).String":       func(fr *frame, a []value) value { return "<duration>" },
		"(time.Duration).Seconds":      intrDurSeconds,

		// strconv
		"strconv.Itoa":       func(fr *frame, a []value) value { return decimalOf(a[0], types.Typ[types.Int], true) },
		"strconv.FormatInt":  func(fr *frame, a []value) value { needBase10(fr, a[1]); return decimalOf(a[0], types.Typ[types.Int64], true) },
		"strconv.FormatUint": func(fr *frame, a []value) value { return formatUint(fr, a[0], a[1]) },
		"strconv.FormatBool": intrFormatBool,
		"strconv.Atoi":       func(fr *frame, a []value) value { return parseDecimal(fr, a[0], true, "Atoi") },
		"strconv.ParseUint":  func(fr *frame, a []value) value { return parseDecimal(fr, a[0], false, "ParseUint") },
		"strconv.ParseInt":   func(fr *frame, a []value) value { return parseDecimal(fr, a[0], true, "ParseInt") },

		// strings (symbolic-aware; concrete arguments use the real functions)
		"strings.HasPrefix":  intrHasPrefix,
		"strings.CutPrefix":  intrCutPrefix,
		"strings.TrimPrefix": func(fr *frame, a []value) value { return intrCutPrefix(fr, a).(tuple)[0] },
		"strings.Cut":        intrCut,
		"strings.Contains":   intrContains,
		"strings.Split":      intrSplit,
		"strings.Index":      intrIndex,
		"strings.IndexByte":  func(fr *frame, a []value) value { return strings.IndexByte(a[0].(string), a[1].(byte)) },
		"strings.EqualFold":  func(fr *frame, a []value) value { return strings.EqualFold(needStr(fr, a[0]), needStr(fr, a[1])) },
		"strings.ToLower":    func(fr *frame, a []value) value { return strings.ToLower(needStr(fr, a[0])) },
		"strings.TrimSpace":  func(fr *frame, a []value) value { return strings.TrimSpace(needStr(fr, a[0])) },
		"strings.Join":       intrJoin,

		"internal/bytealg.IndexByteString": func(fr *frame, a []value) value { return strings.IndexByte(a[0].(string), a[1].(byte)) },
		"internal/bytealg.CountString":     func(fr *frame, a []value) value { return strings.Count(a[0].(string), string([]byte{a[1].(byte)})) },
		"internal/bytealg.IndexString":     func(fr *frame, a []value) value { return strings.Index(a[0].(string), a[1].(string)) },
		"internal/bytealg.LastIndexByteString": func(fr *frame, a []value) value { return strings.LastIndexByte(a[0].(string), a[1].(byte)) },
		"internal/bytealg.MakeNoZero": func(fr *frame, a []value) value {
			n := int(asInt64(a[0]))
			s := make([]value, n)
			for i := range s {
				s[i] = byte(0)
			}
			return s
		},
		"internal/stringslite.Index":      func(fr *frame, a []value) value { return strings.Index(a[0].(string), a[1].(string)) },
		"internal/stringslite.IndexByte":   func(fr *frame, a []value) value { return strings.IndexByte(a[0].(string), a[1].(byte)) },

		// errors / fmt
		"errors.Is":     intrErrorsIs,
		"errors.As":     intrErrorsAs,
		"errors.Unwrap": intrErrorsUnwrap,
		"errors.Join":   intrErrorsJoin,
		"fmt.Errorf":    intrErrorf,
		"fmt.Sprintf":   intrSprintf,
		"fmt.Sprint":    func(fr *frame, a []value) value { return "<sprint>" },
		"fmt.Println":   func(fr *frame, a []value) value { return tuple{0, iface{}} },
		"fmt.Printf":    func(fr *frame, a []value) value { return tuple{0, iface{}} },
		"fmt.Fprintf":   func(fr *frame, a []value) value { return tuple{0, iface{}} },

		// context
		"context.Background":   func(fr *frame, a []value) value { return ctxIface(&ctxObj{}) },
		"context.TODO":         func(fr *frame, a []value) value { return ctxIface(&ctxObj{}) },
		"context.WithCancel":   intrCtxWithCancel,
		"context.WithTimeout":  intrCtxWithTimeout,
		"context.WithDeadline": intrCtxWithDeadline,
		"context.WithValue":    intrCtxWithValue,

		// net/http.Header
		"(net/http.Header).Get":    intrHeaderGet,
		"(net/http.Header).Set":    intrHeaderSet,
		"(net/http.Header).Add":    intrHeaderAdd,
		"(net/http.Header).Del":    intrHeaderDel,
		"(net/http.Header).Values": intrHeaderValues,

		// strings.Builder (uses unsafe in its real body): buf is field 1
		"(*strings.Builder).WriteString": func(fr *frame, a []value) value {
			s := needStr(fr, a[1])
			sbAppend(a[0], []byte(s))
			return tuple{len(s), iface{}}
		},
		"(*strings.Builder).WriteByte": func(fr *frame, a []value) value { sbAppend(a[0], []byte{a[1].(byte)}); return iface{} },
		"(*strings.Builder).WriteRune": func(fr *frame, a []value) value {
			s := string(a[1].(rune))
			sbAppend(a[0], []byte(s))
			return tuple{len(s), iface{}}
		},
		"(*strings.Builder).Write": func(fr *frame, a []value) value {
			bs := a[1].([]value)
			b := make([]byte, len(bs))
			for i := range bs {
				b[i] = bs[i].(byte)
			}
			sbAppend(a[0], b)
			return tuple{len(b), iface{}}
		},
		"(*strings.Builder).String": func(fr *frame, a []value) value {
			buf, _ := (*a[0].(*value)).(structure)[1].([]value)
			b := make([]byte, len(buf))
			for i := range buf {
				b[i] = buf[i].(byte)
			}
			return string(b)
		},
		"(*strings.Builder).Len":   func(fr *frame, a []value) value { buf, _ := (*a[0].(*value)).(structure)[1].([]value); return len(buf) },
		"(*strings.Builder).Grow":  func(fr *frame, a []value) value { return nil },
		"(*strings.Builder).Reset": func(fr *frame, a []value) value { (*a[0].(*value)).(structure)[1] = []value(nil); return nil },

		// net: pure parsers, executed natively on concrete arguments
		"net.SplitHostPort": func(fr *frame, a []value) value {
			h, p, err := net.SplitHostPort(needStr(fr, a[0]))
			if err != nil {
				return tuple{"", "", iface{t: numErrType, v: "net: " + err.Error()}}
			}
			return tuple{h, p, iface{}}
		},
		"net.ParseIP": func(fr *frame, a []value) value {
			ip := net.ParseIP(needStr(fr, a[0]))
			if ip == nil {
				return []value(nil)
			}
			out := make([]value, len(ip))
			for i := range ip {
				out[i] = ip[i]
			}
			return out
		},
		"net.JoinHostPort": func(fr *frame, a []value) value { return net.JoinHostPort(needStr(fr, a[0]), needStr(fr, a[1])) },

		// math
		"math.Ceil":        intrCeil,
		"math.Floor":        intrFloor,
		"math.Round":        func(fr *frame, a []value) value { return intrRoundMode(a[0], "RNA", math.Round) },
		"math.RoundToEven":  func(fr *frame, a []value) value { return intrRoundMode(a[0], "RNE", math.RoundToEven) },
		"math.Trunc":        func(fr *frame, a []value) value { return intrRoundMode(a[0], "RTZ", math.Trunc) },
		"math.Abs":          intrAbs,
		"math.IsNaN":        intrIsNaN,
		"math.IsInf":        intrIsInf,
		"math.Float64bits": func(fr *frame, a []value) value {
			if t, ok := a[0].(*Term); ok {
				// the bit pattern b with to_fp(b) = x (any NaN pattern for NaN)
				b := fr.p.freshVar("f64bits", sortBV(64))
				fr.p.sol.assert(mkOp("=", sortBool, mkOp("(_ to_fp 11 53)", sortFP, b), t))
				return b
			}
			return math.Float64bits(a[0].(float64))
		},
		"math.Float64frombits": func(fr *frame, a []value) value {
			if t, ok := a[0].(*Term); ok {
				return mkOp("(_ to_fp 11 53)", sortFP, t)
			}
			return math.Float64frombits(a[0].(uint64))
		},
		"math.Inf":          func(fr *frame, a []value) value { return math.Inf(int(asInt64(a[0]))) },
		"math.NaN":          func(fr *frame, a []value) value { return math.NaN() },

		// sort
		"sort.Slice":       intrSortSlice,
		"sort.SliceStable": intrSortSlice,
		"sort.Strings":     intrSortStrings,

		// math/rand: nondeterministic choices
		"math/rand.Shuffle": intrShuffle,
		"math/rand.Intn":    intrRandIntn,
		"math/rand.Int63n":  intrRandIntn,
		"math/rand.Float64": intrRandFloat64,
		"math/rand/v2.Shuffle": intrShuffle,
		"math/rand/v2.IntN":    intrRandIntn,

		// go.uber.org/atomic (plain cells; single-threaded engine)
		"go.uber.org/atomic.NewBool":              func(fr *frame, a []value) value { var c value = structure{a[0]}; return &c },
		"(*go.uber.org/atomic.Bool).Load":         func(fr *frame, a []value) value { return (*a[0].(*value)).(structure)[0] },
		"(*go.uber.org/atomic.Bool).Store":        func(fr *frame, a []value) value { (*a[0].(*value)).(structure)[0] = a[1]; return nil },
		"(*go.uber.org/atomic.Bool).CompareAndSwap": intrAtomicBoolCAS,
	}
}

// ---------------------------------------------------------------------------
// sync

func mutexName(fr *frame) string {
	if fr == nil || fr.cur == nil {
		return "?"
	}
	var args []ssa.Value
	switch c := fr.cur.(type) {
	case ssa.CallInstruction:
		args = c.Common().Args
	}
	if len(args) > 0 {
		if fa, ok := args[0].(*ssa.FieldAddr); ok {
			st := deref(fa.X.Type())
			name := st.String()
			if i := strings.LastIndex(name, "/"); i >= 0 {
				name = name[i+1:]
			}
			return name + "." + st.Underlying().(*types.Struct).Field(fa.Field).Name()
		}
	}
	return "?"
}

func (p *Path) lock(fr *frame, m value, write bool) value {
	mp, ok := m.(*value)
	if !ok || mp == nil {
		panic(engineError{"lock of non-pointer mutex"})
	}
	name := mutexName(fr)
	if _, seen := p.lockNames[mp]; !seen || name != "?" {
		p.lockNames[mp] = name
	}
	cur := p.held[mp]
	if cur != 0 {
		if write || cur > 0 {
			p.violationNoAbort("self-deadlock", fmt.Sprintf("%s acquired while already held (at %s)", p.lockNames[mp], fr.posOf(fr.cur)))
			panic(pathAbort{"self-deadlock"})
		}
		// sync.RWMutex prohibits recursive read locking: a writer that calls
		// Lock between the two RLocks blocks the second one forever
		p.violationNoAbort("recursive-read-lock", fmt.Sprintf("%s read-locked again while this goroutine already holds a read lock (deadlocks as soon as a writer waits in between) at %s", p.lockNames[mp], fr.posOf(fr.cur)))
	}
	if p.thr != nil {
		// scheduling point; then wait while another thread holds the mutex
		p.yield()
		// (a read lock this thread already holds is re-entered without waiting)
		for !(cur < 0 && !write) && !p.lockFree(mp, write) {
			t := p.thr.cur
			t.blockedOn, t.blockedWr = mp, write
			p.yield()
			t.blockedOn = nil
		}
	}
	if p.eng.lockset != nil {
		p.eng.lockset.onAcquire(p, mp, write)
	}
	p.raceAcquire(mp, write)
	if write {
		p.held[mp] = 1
		p.lockState[mp] = 1
	} else {
		p.held[mp] = cur - 1
		p.lockState[mp]--
	}
	return nil
}

func (p *Path) unlock(fr *frame, m value, write bool) value {
	mp := m.(*value)
	cur := p.held[mp]
	if (write && cur != 1) || (!write && cur >= 0) {
		panic(runtimePanic("fatal error: sync: unlock of unlocked mutex " + p.lockNames[mp]))
	}
	p.raceRelease(mp, write)
	if write {
		delete(p.held, mp)
		delete(p.lockState, mp)
	} else {
		if cur == -1 {
			delete(p.held, mp)
		} else {
			p.held[mp] = cur + 1
		}
		if p.lockState[mp]++; p.lockState[mp] == 0 {
			delete(p.lockState, mp)
		}
	}
	return nil
}

func intrOnceDo(fr *frame, a []value) value {
	o := a[0].(*value)
	key := fmt.Sprintf("once:%p", o)
	if fr.p.tags[key] {
		return nil
	}
	fr.p.tags[key] = true
	call(fr.p, fr, 0, a[1], nil)
	return nil
}

func intrAtomicBoolCAS(fr *frame, a []value) value {
	st := (*a[0].(*value)).(structure)
	eq := equalsV(fr, types.Typ[types.Bool], st[0], a[1])
	if fr.p.truth(eq) {
		st[0] = a[2]
		return true
	}
	return false
}

// ---------------------------------------------------------------------------
// time: a Time is structure{wall, ext, loc}; the engine keeps wall=0, loc=nil
// and the instant (ns) in ext; the zero Time has ext==0.

func timeExt(t value) value {
	st, ok := t.(structure)
	if !ok {
		panic(engineError{fmt.Sprintf("time value is %T", t)})
	}
	return st[1]
}

func mkTime(ext value) value {
	return structure{uint64(0), ext, (*value)(nil)}
}

var tInt64 = types.Typ[types.Int64]

func intrTimeNow(fr *frame, a []value) value {
	p := fr.p
	p.nowSeq++
	if p.concrete != nil {
		rec := p.newInput("~now", "bv", sortBV(64))
		return mkTime(int64(concU64(rec.conc)))
	}
	now := p.freshVar("now", sortBV(64))
	lo := p.lastNow
	if lo == nil {
		lo = mkBV(64, 1)
	}
	p.sol.assert(mkOp("bvsge", sortBool, now, lo))
	p.sol.assert(mkOp("bvslt", sortBool, now, mkBV(64, 1<<62)))
	p.lastNow = now
	return mkTime(now)
}

func intrTimeUnix(fr *frame, a []value) value {
	// time.Unix(sec, nsec): only sec==0 is supported (instants are ns counts)
	if s, ok := a[0].(int64); !ok || s != 0 {
		panic(engineError{"time.Unix: only sec==0 supported"})
	}
	return mkTime(a[1])
}

func arith(fr *frame, op token.Token, t types.Type, x, y value) value {
	_, xs := x.(*Term)
	_, ys := y.(*Term)
	if xs || ys {
		return unlit(t, liftRes(fr.symBinop(op, t, t, x, y, t)))
	}
	return concBinop(fr, op, t, x, y)
}

func cmp(fr *frame, op token.Token, t types.Type, x, y value) value {
	_, xs := x.(*Term)
	_, ys := y.(*Term)
	if xs || ys {
		return unlit(types.Typ[types.Bool], liftRes(fr.symBinop(op, t, types.Typ[types.Bool], x, y, t)))
	}
	return concBinop(fr, op, t, x, y)
}

func intrTimeAdd(fr *frame, a []value) value {
	return mkTime(arith(fr, token.ADD, tInt64, timeExt(a[0]), a[1]))
}

func timeSub(fr *frame, t, u value) value {
	return arith(fr, token.SUB, tInt64, timeExt(t), timeExt(u))
}

func timeCmp(fr *frame, op token.Token, t, u value) value {
	return cmp(fr, op, tInt64, timeExt(t), timeExt(u))
}

func durDiv(fr *frame, d value, by int64) value {
	return arith(fr, token.QUO, tInt64, d, by)
}

func intrDurSeconds(fr *frame, a []value) value {
	if d, ok := a[0].(int64); ok {
		return float64(d) / 1e9
	}
	panic(engineError{"unsupported: symbolic Duration.Seconds"})
}

// ---------------------------------------------------------------------------
// strconv

func needBase10(fr *frame, b value) {
	if i, ok := b.(int); !ok || i != 10 {
		panic(engineError{"strconv: only base 10 supported"})
	}
}

func decimalOf(x value, t types.Type, signed bool) value {
	xt, ok := x.(*Term)
	if !ok {
		if signed {
			return strconv.FormatInt(asInt64(x), 10)
		}
		return strconv.FormatUint(uint64(asInt64(x)), 10)
	}
	var s *Term
	if signed {
		w := xt.sort.w
		neg := mkOp("bvslt", sortBool, xt, mkBV(w, 0))
		pos := mkOp("str.from_int", sortStr, bvToInt(xt, true))
		negs := mkOp("str.++", sortStr, mkStr("-"), mkOp("str.from_int", sortStr, mkOp("-", sortInt, bvToInt(xt, true))))
		s = tIte(neg, negs, pos)
	} else {
		s = mkOp("str.from_int", sortStr, bvToInt(xt, false))
	}
	if s.op == "" {
		// shared literal? make a private node to hang decOf on
		s = mkOp("str.++", sortStr, s, mkStr(""))
	}
	s.decOf = xt
	s.decSigned = signed
	return s
}

func intrFormatBool(fr *frame, a []value) value {
	if b, ok := a[0].(bool); ok {
		return strconv.FormatBool(b)
	}
	return tIte(a[0].(*Term), mkStr("true"), mkStr("false"))
}

var numErrType = types.NewNamed(types.NewTypeName(token.NoPos, nil, "strconv.NumError", nil), types.Typ[types.String], nil)

func numError(what string) value {
	return iface{t: numErrType, v: "strconv." + what + ": invalid syntax"}
}

func parseDecimal(fr *frame, s value, signed bool, what string) value {
	mk := func(v int64, err error) value {
		var e value = iface{}
		if err != nil {
			e = numError(what)
		}
		switch what {
		case "Atoi":
			return tuple{int(v), e}
		case "ParseUint":
			return tuple{uint64(v), e}
		}
		return tuple{v, e}
	}
	if cs, ok := s.(string); ok {
		if signed {
			v, err := strconv.ParseInt(cs, 10, 64)
			return mk(v, err)
		}
		v, err := strconv.ParseUint(cs, 10, 64)
		return mk(int64(v), err)
	}
	st := s.(*Term)
	if st.decOf != nil && st.decOf.sort.w == 64 && st.decSigned == signed {
		return tuple{st.decOf, iface{}}
	}
	if st.decOf != nil && st.decOf.sort.w == 64 && !st.decSigned && signed {
		// decimal of a uint64 parsed as int: fails iff >= 2^63
		big := mkOp("bvslt", sortBool, st.decOf, mkBV(64, 0))
		if fr.p.truth(big) {
			return tuple{int(math.MaxInt64), numError(what)}
		}
		return tuple{st.decOf, iface{}}
	}
	if st.hexOf != nil {
		// decimal reading of a hexadecimal string: succeeds iff every hex
		// digit is a decimal digit; value = sum of nibble_k * 10^k
		x := st.hexOf
		w := x.sort.w
		var allDec *Term = mkBool(true)
		var val *Term = mkBV(64, 0)
		pow := uint64(1)
		for k := 0; k < w/4; k++ {
			nib := mkOp(fmt.Sprintf("(_ extract %d %d)", 4*k+3, 4*k), sortBV(4), x)
			allDec = tAnd(allDec, mkOp("bvule", sortBool, nib, mkBV(4, 9)))
			ext := mkOp("(_ zero_extend 60)", sortBV(64), nib)
			val = mkOp("bvadd", sortBV(64), val, mkOp("bvmul", sortBV(64), ext, mkBV(64, pow)))
			pow *= 10
		}
		if fr.p.truth(allDec) {
			if signed && fr.p.truth(mkOp("bvslt", sortBool, val, mkBV(64, 0))) {
				return tuple{int(math.MaxInt64), numError(what)}
			}
			return tuple{val, iface{}}
		}
		if what == "Atoi" {
			return tuple{int(0), numError(what)}
		}
		if what == "ParseUint" {
			return tuple{uint64(0), numError(what)}
		}
		return tuple{int64(0), numError(what)}
	}
	// arbitrary symbolic string: over-approximate with a fresh result
	key := fmt.Sprintf("parse:%p:%v", st, signed)
	var okv, val value
	if g, seen := fr.p.ghost[key]; seen {
		pair := g.(tuple)
		okv, val = pair[0], pair[1]
	} else {
		okv = fr.p.freshVar("parse_ok", sortBool)
		val = fr.p.freshVar("parse_val", sortBV(64))
		fr.p.ghost[key] = tuple{okv, val}
		// a successful parse implies a non-empty string
		if t, isT := okv.(*Term); isT {
			fr.p.sol.assert(tImplies(t, tNot(tEq(st, mkStr("")))))
		}
	}
	if fr.p.truth(okv) {
		return tuple{val, iface{}}
	}
	if what == "Atoi" {
		return tuple{int(0), numError(what)}
	}
	if what == "ParseUint" {
		return tuple{uint64(0), numError(what)}
	}
	return tuple{int64(0), numError(what)}
}

// ---------------------------------------------------------------------------
// strings

func needStr(fr *frame, v value) string {
	s, ok := v.(string)
	if !ok {
		panic(engineError{"unsupported: symbolic string argument at " + fr.posOf(fr.cur)})
	}
	return s
}

// strHead splits a string term into a literal head and the remaining term
// (nil if nothing remains).
func strHead(v value) (string, *Term) {
	switch s := v.(type) {
	case string:
		return s, nil
	case *Term:
		if s.isLit() {
			return s.s, nil
		}
		if s.op == "str.++" && len(s.args) == 2 && s.args[0].isLit() {
			return s.args[0].s, s.args[1]
		}
		return "", s
	}
	panic(engineError{fmt.Sprintf("strHead of %T", v)})
}

func strTerm(v value) *Term { return lift(types.Typ[types.String], v) }

func intrHasPrefix(fr *frame, a []value) value {
	s, p := a[0], a[1]
	if cs, ok := s.(string); ok {
		if cp, ok := p.(string); ok {
			return strings.HasPrefix(cs, cp)
		}
	}
	if cp, ok := p.(string); ok {
		head, rest := strHead(s)
		if len(head) >= len(cp) {
			return strings.HasPrefix(head, cp)
		}
		if rest != nil && !strings.HasPrefix(cp, head) {
			return false
		}
	}
	return unlit(types.Typ[types.Bool], mkOp("str.prefixof", sortBool, strTerm(p), strTerm(s)))
}

func intrCutPrefix(fr *frame, a []value) value {
	s, p := a[0], a[1]
	if cs, ok := s.(string); ok {
		if cp, ok := p.(string); ok {
			after, found := strings.CutPrefix(cs, cp)
			return tuple{after, found}
		}
	}
	if cp, ok := p.(string); ok {
		head, rest := strHead(s)
		if len(head) >= len(cp) {
			if !strings.HasPrefix(head, cp) {
				return tuple{s, false}
			}
			tail := head[len(cp):]
			if rest == nil {
				return tuple{tail, true}
			}
			if tail == "" {
				return tuple{unlit(types.Typ[types.String], rest), true}
			}
			return tuple{mkOp("str.++", sortStr, mkStr(tail), rest), true}
		}
	}
	st, pt := strTerm(s), strTerm(p)
	found := mkOp("str.prefixof", sortBool, pt, st)
	plen := mkOp("str.len", sortInt, pt)
	after := mkOp("str.substr", sortStr, st, plen, mkOp("-", sortInt, mkOp("str.len", sortInt, st), plen))
	if fr.p.truth(found) {
		return tuple{after, true}
	}
	return tuple{s, false}
}

func intrCut(fr *frame, a []value) value {
	s, sep := a[0], a[1]
	if cs, ok := s.(string); ok {
		if csep, ok := sep.(string); ok {
			b, af, found := strings.Cut(cs, csep)
			return tuple{b, af, found}
		}
	}
	st, sp := strTerm(s), strTerm(sep)
	idx := mkOp("str.indexof", sortInt, st, sp, mkIntLit(0))
	found := mkOp(">=", sortBool, idx, mkIntLit(0))
	if fr.p.truth(found) {
		before := mkOp("str.substr", sortStr, st, mkIntLit(0), idx)
		start := mkOp("+", sortInt, idx, mkOp("str.len", sortInt, sp))
		after := mkOp("str.substr", sortStr, st, start, mkOp("-", sortInt, mkOp("str.len", sortInt, st), start))
		return tuple{before, after, true}
	}
	return tuple{s, "", false}
}

func intrContains(fr *frame, a []value) value {
	if cs, ok := a[0].(string); ok {
		if cp, ok := a[1].(string); ok {
			return strings.Contains(cs, cp)
		}
	}
	return unlit(types.Typ[types.Bool], mkOp("str.contains", sortBool, strTerm(a[0]), strTerm(a[1])))
}

func intrIndex(fr *frame, a []value) value {
	if cs, ok := a[0].(string); ok {
		if cp, ok := a[1].(string); ok {
			return strings.Index(cs, cp)
		}
	}
	return intToBV(mkOp("str.indexof", sortInt, strTerm(a[0]), strTerm(a[1]), mkIntLit(0)), 64)
}

// intrSplit: for symbolic strings only the FIRST element is exact (the text
// before the first separator); the remainder is returned as one element.
func intrSplit(fr *frame, a []value) value {
	if cs, ok := a[0].(string); ok {
		if csep, ok := a[1].(string); ok {
			parts := strings.Split(cs, csep)
			out := make([]value, len(parts))
			for i := range parts {
				out[i] = parts[i]
			}
			return out
		}
	}
	r := intrCut(fr, a).(tuple)
	if r[2].(bool) {
		return []value{r[0], r[1]}
	}
	return []value{a[0]}
}

func intrJoin(fr *frame, a []value) value {
	elems := a[0].([]value)
	var acc value = ""
	for i, e := range elems {
		if i > 0 {
			acc = concatV(fr, acc, a[1])
		}
		acc = concatV(fr, acc, e)
	}
	return acc
}

func concatV(fr *frame, x, y value) value {
	return arith(fr, token.ADD, types.Typ[types.String], x, y)
}

// ---------------------------------------------------------------------------
// errors / fmt

var wrapErrType = types.NewNamed(types.NewTypeName(token.NoPos, nil, "gosym.wrapError", nil), types.NewStruct(nil, nil), nil)

// wrapErr is the value of a fmt.Errorf / errors.Join result.
type wrapErr struct {
	msg     string
	wrapped []value // iface values
}

func errUnwrapAll(fr *frame, e iface) []value {
	if e.t == nil {
		return nil
	}
	if w, ok := e.v.(*wrapErr); ok {
		return w.wrapped
	}
	if e.t == rtErrType || e.t == numErrType {
		return nil
	}
	if _, ok := e.v.(opaque); ok {
		return nil
	}
	// Unwrap() error / Unwrap() []error via method set
	mset := fr.p.eng.prog.MethodSets.MethodSet(e.t)
	for i := 0; i < mset.Len(); i++ {
		sel := mset.At(i)
		if sel.Obj().Name() != "Unwrap" {
			continue
		}
		fn := fr.p.eng.prog.MethodValue(sel)
		if fn == nil {
			continue
		}
		res := call(fr.p, fr, 0, fn, []value{e.v})
		switch r := res.(type) {
		case iface:
			if r.t == nil {
				return nil
			}
			return []value{r}
		case []value:
			return r
		}
	}
	return nil
}

func tryEquals(fr *frame, t types.Type, x, y value) (res value, ok bool) {
	defer func() {
		if r := recover(); r != nil {
			if e, isE := r.(engineError); isE && strings.HasPrefix(e.msg, "comparing uncomparable") {
				res, ok = false, false
				return
			}
			panic(r)
		}
	}()
	return equalsV(fr, t, x, y), true
}

func errIs(fr *frame, err, target iface) bool {
	if err.t == nil {
		return target.t == nil
	}
	if sameType(err.t, target.t) {
		if eq, ok := tryEquals(fr, err.t, err.v, target.v); ok && fr.p.truth(eq) {
			return true
		}
	}
	// method Is(error) bool
	if _, isW := err.v.(*wrapErr); !isW && err.t != rtErrType && err.t != numErrType {
		if _, isO := err.v.(opaque); !isO {
			mset := fr.p.eng.prog.MethodSets.MethodSet(err.t)
			for i := 0; i < mset.Len(); i++ {
				sel := mset.At(i)
				if sel.Obj().Name() == "Is" {
					if fn := fr.p.eng.prog.MethodValue(sel); fn != nil && fn.Signature.Params().Len() == 1 {
						if fr.p.truth(call(fr.p, fr, 0, fn, []value{err.v, target})) {
							return true
						}
					}
				}
			}
		}
	}
	for _, w := range errUnwrapAll(fr, err) {
		if wi, ok := w.(iface); ok && errIs(fr, wi, target) {
			return true
		}
	}
	return false
}

func intrErrorsIs(fr *frame, a []value) (res value) {
	err, ok1 := a[0].(iface)
	target, ok2 := a[1].(iface)
	if !ok1 || !ok2 {
		return false
	}
	return errIs(fr, err, target)
}

func intrErrorsAs(fr *frame, a []value) value {
	err, ok := a[0].(iface)
	if !ok || err.t == nil {
		return false
	}
	tgt := a[1].(iface)
	ptr := tgt.v.(*value)
	want := deref(tgt.t)
	var walk func(e iface) bool
	walk = func(e iface) bool {
		if e.t == nil {
			return false
		}
		if _, isIface := want.Underlying().(*types.Interface); isIface {
			if types.AssignableTo(e.t, want) {
				*ptr = e
				return true
			}
		} else if types.Identical(e.t, want) {
			*ptr = e.v
			return true
		}
		for _, w := range errUnwrapAll(fr, e) {
			if wi, ok := w.(iface); ok && walk(wi) {
				return true
			}
		}
		return false
	}
	return walk(err)
}

func intrErrorsUnwrap(fr *frame, a []value) value {
	err, ok := a[0].(iface)
	if !ok || err.t == nil {
		return iface{}
	}
	if w, ok := err.v.(*wrapErr); ok {
		if len(w.wrapped) == 1 {
			return w.wrapped[0]
		}
		return iface{}
	}
	ws := errUnwrapAll(fr, err)
	if len(ws) == 1 {
		return ws[0]
	}
	return iface{}
}

func intrErrorsJoin(fr *frame, a []value) value {
	var ws []value
	for _, e := range a[0].([]value) {
		if ei, ok := e.(iface); ok && ei.t != nil {
			ws = append(ws, ei)
		}
	}
	if len(ws) == 0 {
		return iface{}
	}
	return iface{t: wrapErrType, v: &wrapErr{msg: "<joined>", wrapped: ws}}
}

func intrErrorf(fr *frame, a []value) value {
	format, _ := a[0].(string)
	w := &wrapErr{msg: format}
	if strings.Contains(format, "%w") {
		for _, arg := range a[1].([]value) {
			if ai, ok := arg.(iface); ok && ai.t != nil {
				if types.Implements(ai.t, errorIface) || ai.t == wrapErrType || ai.t == rtErrType || ai.t == numErrType {
					w.wrapped = append(w.wrapped, ai)
				}
			}
		}
	}
	return iface{t: wrapErrType, v: w}
}

var errorIface = types.Universe.Lookup("error").Type().Underlying().(*types.Interface)

func intrSprintf(fr *frame, a []value) value {
	format, ok := a[0].(string)
	if !ok {
		return "<sprintf>"
	}
	var args []interface{}
	for _, arg := range a[1].([]value) {
		ai, ok := arg.(iface)
		if !ok {
			return "<sprintf>"
		}
		switch v := ai.v.(type) {
		case string, int, int8, int16, int32, int64, uint, uint8, uint16, uint32, uint64, bool, float64:
			args = append(args, v)
		default:
			// symbolic %s of a string: support the pure concatenation formats
			if t, isT := v.(*Term); isT && t.sort.k == kStr {
				return sprintfSym(fr, format, a[1].([]value))
			}
			return "<sprintf>"
		}
	}
	return fmt.Sprintf(format, args...)
}

// sprintfSym supports formats consisting of literal text, %s and %d only.
func sprintfSym(fr *frame, format string, args []value) value {
	var acc value = ""
	ai := 0
	for i := 0; i < len(format); i++ {
		c := format[i]
		if c != '%' || i+1 >= len(format) {
			acc = concatV(fr, acc, string(c))
			continue
		}
		i++
		switch format[i] {
		case '%':
			acc = concatV(fr, acc, "%")
		case 's', 'v', 'd':
			if ai >= len(args) {
				return "<sprintf>"
			}
			v := args[ai].(iface).v
			ai++
			switch x := v.(type) {
			case string:
				acc = concatV(fr, acc, x)
			case *Term:
				if x.sort.k == kStr {
					acc = concatV(fr, acc, x)
				} else if x.sort.k == kBV {
					acc = concatV(fr, acc, decimalOf(x, nil, true))
				} else {
					return "<sprintf>"
				}
			default:
				acc = concatV(fr, acc, fmt.Sprint(x))
			}
		default:
			return "<sprintf>"
		}
	}
	return acc
}

// ---------------------------------------------------------------------------
// context

type ctxObj struct {
	parent      *ctxObj
	key, val    value
	hasDeadline bool
	deadline    value // time.Time structure
	timeout     value // Duration given to WithTimeout (nil otherwise)
	cancelled   *bool
	id          int
}

var ctxType = types.NewNamed(types.NewTypeName(token.NoPos, nil, "gosym.ctx", nil), types.NewStruct(nil, nil), nil)

func ctxIface(c *ctxObj) value { return iface{t: ctxType, v: c} }

func ctxOf(v value) *ctxObj {
	if i, ok := v.(iface); ok {
		if c, ok := i.v.(*ctxObj); ok {
			return c
		}
		if i.t == nil {
			panic(runtimePanic("cannot create context from nil parent"))
		}
	}
	panic(engineError{fmt.Sprintf("context value is %T %.200s (only engine contexts are supported)", v, toString(v))})
}

func cancelFn(c *ctxObj) value {
	return &builtinFn{h: func(fr *frame, args []value) value {
		*c.cancelled = true
		return nil
	}}
}

func intrCtxWithCancel(fr *frame, a []value) value {
	parent := ctxOf(a[0])
	c := &ctxObj{parent: parent, cancelled: new(bool)}
	return tuple{ctxIface(c), cancelFn(c)}
}

func intrCtxWithTimeout(fr *frame, a []value) value {
	parent := ctxOf(a[0])
	now := intrTimeNow(fr, nil)
	c := &ctxObj{parent: parent, cancelled: new(bool), hasDeadline: true, timeout: a[1],
		deadline: mkTime(arith(fr, token.ADD, tInt64, timeExt(now), a[1]))}
	return tuple{ctxIface(c), cancelFn(c)}
}

func intrCtxWithDeadline(fr *frame, a []value) value {
	parent := ctxOf(a[0])
	c := &ctxObj{parent: parent, cancelled: new(bool), hasDeadline: true, deadline: a[1]}
	return tuple{ctxIface(c), cancelFn(c)}
}

func intrCtxWithValue(fr *frame, a []value) value {
	parent := ctxOf(a[0])
	return ctxIface(&ctxObj{parent: parent, key: a[1], val: a[2]})
}

func (c *ctxObj) isCancelled() bool {
	for x := c; x != nil; x = x.parent {
		if x.cancelled != nil && *x.cancelled {
			return true
		}
	}
	return false
}

func callCtxMethod(fr *frame, name string, args []value) value {
	c := args[0].(*ctxObj)
	switch name {
	case "Value":
		key := args[1].(iface)
		for x := c; x != nil; x = x.parent {
			if k, ok := x.key.(iface); ok && sameType(k.t, key.t) {
				if fr.p.truth(equalsV(fr, k.t, k.v, key.v)) {
					return x.val
				}
			}
		}
		return iface{}
	case "Err":
		if c.isCancelled() {
			return fr.p.externalErr("context", "Canceled")
		}
		return iface{}
	case "Done":
		return make(chan value)
	case "Deadline":
		for x := c; x != nil; x = x.parent {
			if x.hasDeadline {
				return tuple{x.deadline, true}
			}
		}
		return tuple{mkTime(int64(0)), false}
	}
	panic(engineError{"context method " + name})
}

// externalErr returns the sentinel value of an error variable of a foreign package.
func (p *Path) externalErr(pkg, name string) value {
	sp := p.eng.prog.ImportedPackage(pkg)
	if sp == nil {
		panic(engineError{"package not loaded: " + pkg})
	}
	g, ok := sp.Members[name].(*ssa.Global)
	if !ok {
		panic(engineError{"no global " + pkg + "." + name})
	}
	return *p.global(g)
}

// ---------------------------------------------------------------------------
// net/http.Header (map[string][]string with concrete keys)

func headerKey(fr *frame, k value) string {
	return textproto.CanonicalMIMEHeaderKey(needStr(fr, k))
}

func intrHeaderGet(fr *frame, a []value) value {
	m, _ := a[0].(*smap)
	if m == nil {
		return ""
	}
	v, ok := m.lookup(fr, headerKey(fr, a[1]))
	if !ok {
		return ""
	}
	vs := v.([]value)
	if len(vs) == 0 {
		return ""
	}
	return vs[0]
}

func intrHeaderValues(fr *frame, a []value) value {
	m, _ := a[0].(*smap)
	if m == nil {
		return []value(nil)
	}
	v, ok := m.lookup(fr, headerKey(fr, a[1]))
	if !ok {
		return []value(nil)
	}
	return v
}

func intrHeaderSet(fr *frame, a []value) value {
	m := a[0].(*smap)
	if m == nil {
		panic(runtimePanic("assignment to entry in nil map"))
	}
	m.insert(fr, headerKey(fr, a[1]), []value{a[2]})
	return nil
}

func intrHeaderAdd(fr *frame, a []value) value {
	m := a[0].(*smap)
	if m == nil {
		panic(runtimePanic("assignment to entry in nil map"))
	}
	k := headerKey(fr, a[1])
	old, _ := m.lookup(fr, k)
	var vs []value
	if old != nil {
		vs = old.([]value)
	}
	m.insert(fr, k, append(vs[:len(vs):len(vs)], a[2]))
	return nil
}

func intrHeaderDel(fr *frame, a []value) value {
	m, _ := a[0].(*smap)
	if m != nil {
		m.delete(fr, headerKey(fr, a[1]))
	}
	return nil
}

// ---------------------------------------------------------------------------
// math

func intrCeil(fr *frame, a []value) value {
	if f, ok := a[0].(float64); ok {
		return math.Ceil(f)
	}
	return mkOp("fp.roundToIntegral", sortFP, &Term{lit: "RTP"}, a[0].(*Term))
}

func intrRoundMode(x value, mode string, conc func(float64) float64) value {
	if f, ok := x.(float64); ok {
		return conc(f)
	}
	return mkOp("fp.roundToIntegral", sortFP, &Term{lit: mode}, x.(*Term))
}

func intrAbs(fr *frame, a []value) value {
	if f, ok := a[0].(float64); ok {
		return math.Abs(f)
	}
	return mkOp("fp.abs", sortFP, a[0].(*Term))
}

func intrFloor(fr *frame, a []value) value {
	if f, ok := a[0].(float64); ok {
		return math.Floor(f)
	}
	return mkOp("fp.roundToIntegral", sortFP, &Term{lit: "RTN"}, a[0].(*Term))
}

func intrIsNaN(fr *frame, a []value) value {
	if f, ok := a[0].(float64); ok {
		return math.IsNaN(f)
	}
	return mkOp("fp.isNaN", sortBool, a[0].(*Term))
}

func intrIsInf(fr *frame, a []value) value {
	sign := int(asInt64(a[1]))
	if f, ok := a[0].(float64); ok {
		return math.IsInf(f, sign)
	}
	t := a[0].(*Term)
	inf := mkOp("fp.isInfinite", sortBool, t)
	switch {
	case sign > 0:
		return tAnd(inf, mkOp("fp.isPositive", sortBool, t))
	case sign < 0:
		return tAnd(inf, mkOp("fp.isNegative", sortBool, t))
	}
	return inf
}

// ---------------------------------------------------------------------------
// sort / rand

// intrSortSlice: insertion sort that executes the real less closure (forking on
// symbolic comparisons). Assumption: equal keys keep their original order.
func intrSortSlice(fr *frame, a []value) value {
	xi := a[0].(iface)
	s, ok := xi.v.([]value)
	if !ok {
		panic(engineError{"sort.Slice: not a slice"})
	}
	less := a[1]
	for i := 1; i < len(s); i++ {
		for j := i; j > 0; j-- {
			r := call(fr.p, fr, 0, less, []value{j, j - 1})
			if !fr.p.truth(r) {
				break
			}
			s[j], s[j-1] = s[j-1], s[j]
		}
	}
	return nil
}

func intrSortStrings(fr *frame, a []value) value {
	s := a[0].([]value)
	for i := 1; i < len(s); i++ {
		for j := i; j > 0; j-- {
			if !fr.p.truth(cmp(fr, token.LSS, types.Typ[types.String], s[j], s[j-1])) {
				break
			}
			s[j], s[j-1] = s[j-1], s[j]
		}
	}
	return nil
}

// intrShuffle: a nondeterministic permutation chosen by the path (Fisher-Yates
// with engine choices), only when the harness enabled it; otherwise identity.
func intrShuffle(fr *frame, a []value) value {
	n := int(asInt64(a[0]))
	if !fr.p.tags["shuffle"] {
		return nil
	}
	for i := n - 1; i > 0; i-- {
		j := fr.p.chooseNamed("~shuffle", i+1)
		call(fr.p, fr, 0, a[1], []value{i, j})
	}
	return nil
}

func intrRandIntn(fr *frame, a []value) value {
	n := int(asInt64(a[0]))
	if n <= 0 {
		panic(runtimePanic("invalid argument to Intn"))
	}
	k := fr.p.chooseNamed("~rand", n)
	switch a[0].(type) {
	case int64:
		return int64(k)
	}
	return k
}

func intrRandFloat64(fr *frame, a []value) value {
	p := fr.p
	if p.concrete != nil {
		rec := p.newInput("~randf", "f64", sortFP)
		return concF64(rec.conc)
	}
	f := p.freshVar("randf", sortFP)
	p.sol.assert(mkOp("fp.geq", sortBool, f, mkFP(0)))
	p.sol.assert(mkOp("fp.lt", sortBool, f, mkFP(1)))
	return f
}

func (p *Path) chooseNamed(name string, n int) int {
	rec := p.newInput(name, "choose", Sort{})
	if p.concrete != nil {
		return int(concU64(rec.conc))
	}
	k := p.choose(n)
	rec.conc = k
	return k
}
