package main

// Path exploration: stateless DFS with decision replay, 16 workers, one solver
// process per worker.

import (
	"encoding/json"
	"fmt"
	"go/types"
	"math"
	"os"
	"runtime"
	"runtime/debug"
	"sort"
	"strconv"
	"strings"
	"sync"
	"sync/atomic"
	"time"

	"golang.org/x/tools/go/ssa"
)

type inputRec struct {
	Name string // harness-visible name incl. occurrence suffix
	sym  string // SMT constant name
	kind string // bool | bv | f64 | str | choose
	w    int
	term *Term
	conc interface{} // concrete value (choose / concrete mode)
}

type Violation struct {
	Harness   string                 `json:"harness"`
	Property  string                 `json:"property"`
	Label     string                 `json:"label"`
	Detail    string                 `json:"detail,omitempty"`
	Params    map[string]int         `json:"params"`
	Inputs    map[string]interface{} `json:"inputs"`
	Order     []string               `json:"order"`
	Decisions []int32                `json:"decisions"`
	Pkg       string                 `json:"pkg"`
	Replayed  string                 `json:"replayed,omitempty"`
}

type labelStat struct {
	Reached   int64 // times an assert with this label was evaluated
	Discharged int64 // unsat answers (or concretely true)
	Violated  int64
	Undecided int64
}

type HarnessRun struct {
	eng     *Engine
	prop    string
	name    string
	pkg     string
	entry   *ssa.Function
	params  map[string]int
	native  bool
	expectCovers []string

	mu       sync.Mutex
	cond     *sync.Cond
	queue    [][]int32
	inflight int
	stopped  bool

	paths      int64
	aborts     map[string]int64
	asserts    map[string]*labelStat
	covers     map[string]int64
	violations []*Violation
	known      map[string]int64 // class -> count
	knownWhat  map[string]string
	undecided  []string
	fatal      string
	samples    []map[string]interface{}
	inexact    int64
	fpConvOOR  int64
	xcount     int64
	natSamples    []*Violation // models of completed paths for native differential replay
	validateWant  int
	validateEvery int64
	completedSeen int64
	fallbacks  map[string]int64
	steps      int64
	maxDepth   int
	t0         time.Time
	wall       time.Duration
}

type Path struct {
	eng  *Engine
	run  *HarnessRun
	sol  *Solver

	prefix    []int32
	decisions []int32
	pos       int
	steps     int64

	globals   map[*ssa.Global]*value
	inputs    []*inputRec
	nameCount map[string]int
	classes   map[string]value
	inexact   bool
	expectPanic bool
	nowSeq    int
	lastNow   *Term
	held      map[*value]int // mutex -> 1 (write) or -n (n readers)
	lockNames map[*value]string
	lockLog   []string
	observes  []string
	concrete  map[string]interface{} // non-nil: concrete (replay) mode
	tags      map[string]bool
	ghost     map[string]value
	fbModel   map[string]string // model obtained from a fallback solver (raw SMT values)

	thr       *threadState       // non-nil once the path has spawned a thread
	lockState map[*value]int     // all threads: 1 = write-held, -n = n readers
	wgCount   map[*value]int     // WaitGroup counters
}

// ---------------------------------------------------------------------------
// decisions

func (p *Path) truth(v value) bool {
	if b, ok := v.(bool); ok {
		return b
	}
	t, ok := v.(*Term)
	if !ok {
		panic(engineError{fmt.Sprintf("truth of %T", v)})
	}
	if t.isLit() {
		return t.b
	}
	return p.branch(t)
}

func (p *Path) record(d int32) {
	p.decisions = append(p.decisions, d)
}

func (p *Path) branch(c *Term) bool {
	if p.pos < len(p.prefix) {
		d := p.prefix[p.pos]
		p.pos++
		p.record(d)
		if d == 1 {
			p.sol.assert(c)
		} else {
			p.sol.assert(tNot(c))
		}
		return d == 1
	}
	p.pos++
	rT := p.check(c, false)
	if rT == rUnsat {
		p.record(0)
		p.sol.assert(tNot(c))
		return false
	}
	rF := p.check(c, true)
	if rF == rUnsat {
		p.record(1)
		p.sol.assert(c)
		return true
	}
	if rT == rUnknown || rF == rUnknown {
		p.inexact = true
	}
	alt := make([]int32, len(p.decisions)+1)
	copy(alt, p.decisions)
	alt[len(p.decisions)] = 0
	p.run.push(alt)
	p.record(1)
	p.sol.assert(c)
	return true
}

// split picks one of several mutually exclusive conditions.
func (p *Path) split(conds []*Term, what string) int {
	if p.pos < len(p.prefix) {
		d := p.prefix[p.pos]
		p.pos++
		p.record(d)
		p.sol.assert(conds[d])
		return int(d)
	}
	p.pos++
	var feas []int
	for i, c := range conds {
		if c.isLit() {
			if c.b {
				feas = append(feas, i)
			}
			continue
		}
		r := p.check(c, false)
		if r != rUnsat {
			feas = append(feas, i)
			if r == rUnknown {
				p.inexact = true
			}
		}
	}
	if len(feas) == 0 {
		panic(pathAbort{"infeasible-split"})
	}
	for _, i := range feas[1:] {
		alt := make([]int32, len(p.decisions)+1)
		copy(alt, p.decisions)
		alt[len(p.decisions)] = int32(i)
		p.run.push(alt)
	}
	p.record(int32(feas[0]))
	p.sol.assert(conds[feas[0]])
	return feas[0]
}

// choose forks n ways without constraints.
func (p *Path) choose(n int) int {
	if n <= 0 {
		panic(pathAbort{"empty-choose"})
	}
	if p.pos < len(p.prefix) {
		d := p.prefix[p.pos]
		p.pos++
		p.record(d)
		return int(d)
	}
	p.pos++
	for i := 1; i < n; i++ {
		alt := make([]int32, len(p.decisions)+1)
		copy(alt, p.decisions)
		alt[len(p.decisions)] = int32(i)
		p.run.push(alt)
	}
	p.record(0)
	return 0
}

func (r *HarnessRun) push(prefix []int32) {
	r.mu.Lock()
	r.queue = append(r.queue, prefix)
	r.mu.Unlock()
	r.cond.Signal()
}

func (r *HarnessRun) pop() ([]int32, bool) {
	r.mu.Lock()
	defer r.mu.Unlock()
	for {
		if r.stopped {
			return nil, false
		}
		if n := len(r.queue); n > 0 {
			p := r.queue[n-1]
			r.queue = r.queue[:n-1]
			r.inflight++
			return p, true
		}
		if r.inflight == 0 {
			r.cond.Broadcast()
			return nil, false
		}
		r.cond.Wait()
	}
}

func (r *HarnessRun) done() {
	r.mu.Lock()
	r.inflight--
	if r.inflight == 0 && len(r.queue) == 0 {
		r.cond.Broadcast()
	}
	r.mu.Unlock()
}

// ---------------------------------------------------------------------------
// inputs

func sanitize(s string) string {
	var sb strings.Builder
	for _, c := range s {
		if (c >= 'a' && c <= 'z') || (c >= 'A' && c <= 'Z') || (c >= '0' && c <= '9') || c == '_' {
			sb.WriteRune(c)
		} else {
			sb.WriteByte('_')
		}
	}
	return sb.String()
}

func (p *Path) newInput(name, kind string, so Sort) *inputRec {
	k := p.nameCount[name]
	p.nameCount[name] = k + 1
	full := fmt.Sprintf("%s#%d", name, k)
	rec := &inputRec{Name: full, kind: kind, w: so.w}
	if p.concrete != nil {
		rec.conc = p.concrete[full]
		p.inputs = append(p.inputs, rec)
		return rec
	}
	rec.sym = fmt.Sprintf("in%d_%s", len(p.inputs), sanitize(name))
	if kind != "choose" {
		p.sol.declare(rec.sym, so)
		rec.term = mkVar(rec.sym, so)
	}
	p.inputs = append(p.inputs, rec)
	return rec
}

// freshVar declares an anonymous symbolic constant (not a harness input).
func (p *Path) freshVar(hint string, so Sort) *Term {
	rec := p.newInput("~"+hint, kindOfSort(so), so)
	if p.concrete != nil {
		return lift(nil, concDefault(rec, so))
	}
	return rec.term
}

func kindOfSort(so Sort) string {
	switch so.k {
	case kBool:
		return "bool"
	case kBV:
		return "bv"
	case kFP:
		return "f64"
	case kStr:
		return "str"
	}
	return "?"
}

func concDefault(rec *inputRec, so Sort) value {
	switch so.k {
	case kBool:
		b, _ := rec.conc.(bool)
		return b
	case kBV:
		return concU64(rec.conc)
	case kFP:
		return concF64(rec.conc)
	case kStr:
		s, _ := rec.conc.(string)
		return s
	}
	return nil
}

func concU64(x interface{}) uint64 {
	switch x := x.(type) {
	case string:
		u, _ := strconv.ParseUint(x, 10, 64)
		return u
	case float64:
		return uint64(x)
	case uint64:
		return x
	case int:
		return uint64(x)
	}
	return 0
}

func concF64(x interface{}) float64 {
	switch x := x.(type) {
	case string:
		u, _ := strconv.ParseUint(strings.TrimPrefix(x, "0x"), 16, 64)
		return math.Float64frombits(u)
	case float64:
		return x
	}
	return 0
}

// ---------------------------------------------------------------------------
// globals

func (p *Path) global(g *ssa.Global) *value {
	if r, ok := p.globals[g]; ok {
		return r
	}
	cell := new(value)
	t := deref(g.Type())
	path := ""
	if g.Pkg != nil {
		path = g.Pkg.Pkg.Path()
	}
	if isPikoPath(path) && !p.eng.isOpaquePkg(path) {
		*cell = zero(t)
	} else {
		*cell = externalGlobal(g, t)
	}
	p.globals[g] = cell
	return cell
}

var errorStringPtr types.Type // *errors.errorString, set at load

func externalGlobal(g *ssa.Global, t types.Type) value {
	if _, ok := t.Underlying().(*types.Interface); ok {
		if types.Identical(t, types.Universe.Lookup("error").Type()) && errorStringPtr != nil {
			// sentinel error: &errors.errorString{name}
			var cell value = structure{g.Pkg.Pkg.Name() + "." + g.Name()}
			return iface{t: errorStringPtr, v: &cell}
		}
		return opaque{t}
	}
	switch t.Underlying().(type) {
	case *types.Basic, *types.Slice, *types.Map:
		return zero(t)
	}
	return opaque{t}
}

// ---------------------------------------------------------------------------
// hooks used by the interpreter

func (p *Path) unwindExceeded(fr *frame) {
	p.run.noteUndecided(fmt.Sprintf("unwind bound %d exceeded at %s", p.eng.unwind, fr.posOf(fr.block.Instrs[0])))
	panic(pathAbort{"unwind"})
}

func (p *Path) noteFPConv(inRange *Term) {
	// statistics only: how many float->int conversions had a symbolic operand
	atomic.AddInt64(&p.run.fpConvOOR, 1)
}

func (p *Path) onFieldAddr(fr *frame, instr *ssa.FieldAddr, base *value) {
	if p.eng.lockset != nil {
		p.eng.lockset.onFieldAddr(p, fr, instr, base)
	}
}

// ---------------------------------------------------------------------------
// assertions, assumptions, covers

func (r *HarnessRun) stat(label string) *labelStat {
	s := r.asserts[label]
	if s == nil {
		s = &labelStat{}
		r.asserts[label] = s
	}
	return s
}

func (r *HarnessRun) noteUndecided(msg string) {
	r.mu.Lock()
	if len(r.undecided) < 50 {
		r.undecided = append(r.undecided, msg)
	}
	r.mu.Unlock()
}

func (p *Path) assume(v value) {
	if b, ok := v.(bool); ok {
		if !b {
			panic(pathAbort{"assume-false"})
		}
		return
	}
	t := v.(*Term)
	if p.pos < len(p.prefix) {
		// replaying: the assumption was satisfiable the first time
		p.sol.assert(t)
		return
	}
	switch p.check(t, false) {
	case rUnsat:
		panic(pathAbort{"assume-false"})
	case rUnknown:
		p.inexact = true
	}
	p.sol.assert(t)
}

func (p *Path) assertProp(label string, v value) {
	r := p.run
	replaying := p.pos < len(p.prefix)
	if b, ok := v.(bool); ok {
		if !replaying {
			r.mu.Lock()
			s := r.stat(label)
			s.Reached++
			if b {
				s.Discharged++
			}
			r.mu.Unlock()
		}
		if !b {
			p.violation(label, nil, "")
		}
		return
	}
	t := v.(*Term)
	if replaying {
		p.sol.assert(t)
		return
	}
	res := p.check(t, true)
	r.mu.Lock()
	s := r.stat(label)
	s.Reached++
	switch res {
	case rUnsat:
		s.Discharged++
	case rUnknown:
		s.Undecided++
	}
	r.mu.Unlock()
	switch res {
	case rUnsat:
		if p.eng.xcheck {
			p.crossCheck(label, t)
		}
		p.sol.assert(t)
	case rUnknown:
		r.noteUndecided("assert " + label + ": solver answered unknown")
		p.inexact = true
		p.sol.assert(t)
	case rSat:
		p.violation(label, t, "")
	}
}

// crossCheck re-asks an unsat assert query with the secondary solvers.
func (p *Path) crossCheck(label string, t *Term) {
	// sample: the first 200 assert queries of a harness, then every 20th up to
	// 20000, then every 1000th (each is two one-shot solver processes)
	n := atomic.AddInt64(&p.run.xcount, 1)
	if (n > 200 && n%20 != 0) || (n > 20000 && n%1000 != 0) {
		return
	}
	ref := p.sol.ref(t)
	var sb strings.Builder
	for _, l := range p.sol.transcript {
		if strings.HasPrefix(l, "(push") || strings.HasPrefix(l, ";") {
			continue
		}
		sb.WriteString(l)
		sb.WriteByte('\n')
	}
	sb.WriteString("(assert (not " + ref + "))\n(check-sat)\n")
	script := sb.String()
	hasStr := strings.Contains(script, "str.")
	for _, bin := range p.eng.xsolvers {
		if hasStr && strings.Contains(bin, "cvc5") {
			continue // cvc5 1.0 stalls on str.from_int (measured); strings go to z3 5.1 only
		}
		res, out := runOneShot(bin, script, 20)
		atomic.AddInt64(&gstats.XCheck, 1)
		if res == rSat {
			atomic.AddInt64(&gstats.XDisagree, 1)
			p.run.noteUndecided(fmt.Sprintf("solver disagreement on assert %s: primary unsat, %s sat", label, bin))
		} else if res == rUnknown && strings.Contains(out, "(error") {
			p.run.noteUndecided(fmt.Sprintf("cross-check error on assert %s with %s: %.200s", label, bin, out))
		} else if res == rUnknown {
			atomic.AddInt64(&gstats.XUnknown, 1)
		}
	}
}

// violation records a counterexample for label. negOf is the asserted term
// that can be false (nil when the assertion was concretely false).
func (p *Path) violation(label string, negOf *Term, detail string) {
	r := p.run
	if p.concrete != nil {
		r.mu.Lock()
		r.violations = append(r.violations, &Violation{Harness: r.name, Property: r.prop, Label: label, Detail: detail})
		r.mu.Unlock()
		panic(pathAbort{"violation"})
	}
	// known-finding classes
	var extra *Term
	if negOf != nil {
		extra = tNot(negOf)
	}
	classes := p.eng.knownClasses(r.prop, r.name, label)
	if len(classes) > 0 {
		q := extra
		for _, c := range classes {
			cv, ok := p.classes[c.Class]
			if !ok {
				continue
			}
			var nt *Term
			if b, isb := cv.(bool); isb {
				nt = mkBool(!b)
			} else {
				nt = tNot(cv.(*Term))
			}
			if q == nil {
				q = nt
			} else {
				q = tAnd(q, nt)
			}
		}
		res := rSat
		if q != nil {
			if q.isLit() {
				if !q.b {
					res = rUnsat
				}
			} else {
				res = p.check(q, false)
			}
		}
		if res == rUnsat {
			r.mu.Lock()
			for _, c := range classes {
				if _, ok := p.classes[c.Class]; ok {
					r.known[c.Class]++
					r.knownWhat[c.Class] = c.What
				}
			}
			r.mu.Unlock()
			panic(pathAbort{"known-finding"})
		}
		extra = q
	}
	// obtain a model
	var res satResult
	if extra == nil || extra.isLit() {
		res = p.check(nil, false)
	} else {
		res = p.check(extra, false)
	}
	if res != rSat {
		r.noteUndecided(fmt.Sprintf("assert %s: could not obtain model (%s)", label, res))
		r.mu.Lock()
		r.stat(label).Undecided++
		r.mu.Unlock()
		panic(pathAbort{"no-model"})
	}
	v := &Violation{Harness: r.name, Property: r.prop, Label: label, Detail: detail, Params: r.params, Pkg: r.pkg}
	v.Inputs, v.Order = p.model()
	v.Decisions = append([]int32(nil), p.decisions...)
	r.mu.Lock()
	r.stat(label).Violated++
	// keep up to 20 counterexamples, and always the first two of every label
	// (a flood of one label must not hide a different violation)
	if len(r.violations) < 20 || r.stat(label).Violated <= 2 {
		r.violations = append(r.violations, v)
	}
	r.mu.Unlock()
	panic(pathAbort{"violation"})
}

// model extracts the values of all inputs after a sat answer.
func (p *Path) model() (map[string]interface{}, []string) {
	var names []string
	for _, in := range p.inputs {
		if in.term != nil {
			names = append(names, in.sym)
		}
	}
	vals := map[string]string{}
	if len(names) > 0 {
		if p.fbModel != nil {
			vals = p.fbModel
		} else {
			vals = p.sol.getValues(names)
		}
	}
	out := map[string]interface{}{}
	var order []string
	for _, in := range p.inputs {
		order = append(order, in.Name)
		if in.kind == "choose" {
			out[in.Name] = in.conc
			continue
		}
		raw := vals[in.sym]
		out[in.Name] = decodeModelValue(in.kind, raw)
	}
	return out, order
}

func decodeModelValue(kind, raw string) interface{} {
	raw = strings.TrimSpace(raw)
	switch kind {
	case "bool":
		return raw == "true"
	case "bv":
		if strings.HasPrefix(raw, "#x") {
			u, _ := strconv.ParseUint(raw[2:], 16, 64)
			return strconv.FormatUint(u, 10)
		}
		if strings.HasPrefix(raw, "#b") {
			u, _ := strconv.ParseUint(raw[2:], 2, 64)
			return strconv.FormatUint(u, 10)
		}
		return "0"
	case "str":
		return decodeSMTString(raw)
	case "f64":
		return fmt.Sprintf("0x%016x", decodeFP(raw))
	}
	return raw
}

func decodeSMTString(raw string) string {
	if len(raw) < 2 || raw[0] != '"' {
		return ""
	}
	s := raw[1 : len(raw)-1]
	var out []byte
	for i := 0; i < len(s); i++ {
		c := s[i]
		if c == '"' && i+1 < len(s) && s[i+1] == '"' {
			out = append(out, '"')
			i++
			continue
		}
		if c == '\\' && i+1 < len(s) {
			if s[i+1] == 'u' && i+2 < len(s) && s[i+2] == '{' {
				j := strings.IndexByte(s[i:], '}')
				if j > 0 {
					cp, err := strconv.ParseUint(s[i+3:i+j], 16, 32)
					if err == nil {
						if cp < 256 {
							out = append(out, byte(cp))
						} else {
							out = append(out, []byte(string(rune(cp)))...)
						}
						i += j
						continue
					}
				}
			}
			if s[i+1] == 'x' && i+3 < len(s) {
				cp, err := strconv.ParseUint(s[i+2:i+4], 16, 8)
				if err == nil {
					out = append(out, byte(cp))
					i += 3
					continue
				}
			}
			if s[i+1] == 'u' && i+5 < len(s) {
				cp, err := strconv.ParseUint(s[i+2:i+6], 16, 32)
				if err == nil && cp < 256 {
					out = append(out, byte(cp))
					i += 5
					continue
				}
			}
		}
		out = append(out, c)
	}
	return string(out)
}

func decodeFP(raw string) uint64 {
	sx := parseSexpr(raw)
	if !sx.isList {
		return 0
	}
	if len(sx.list) == 4 && sx.list[0].atom == "fp" {
		parse := func(a string) uint64 {
			if strings.HasPrefix(a, "#b") {
				u, _ := strconv.ParseUint(a[2:], 2, 64)
				return u
			}
			if strings.HasPrefix(a, "#x") {
				u, _ := strconv.ParseUint(a[2:], 16, 64)
				return u
			}
			return 0
		}
		return parse(sx.list[1].atom)<<63 | parse(sx.list[2].atom)<<52 | parse(sx.list[3].atom)
	}
	if len(sx.list) >= 2 && sx.list[0].atom == "_" {
		switch sx.list[1].atom {
		case "+zero":
			return 0
		case "-zero":
			return 1 << 63
		case "+oo":
			return math.Float64bits(math.Inf(1))
		case "-oo":
			return math.Float64bits(math.Inf(-1))
		case "NaN":
			return math.Float64bits(math.NaN())
		}
	}
	return 0
}

// ---------------------------------------------------------------------------
// running a harness

func (r *HarnessRun) runPath(sol *Solver, prefix []int32, concrete map[string]interface{}) {
	p := &Path{
		eng: r.eng, run: r, sol: sol, prefix: prefix,
		globals:   map[*ssa.Global]*value{},
		nameCount: map[string]int{},
		classes:   map[string]value{},
		held:      map[*value]int{},
		lockState: map[*value]int{},
		wgCount:   map[*value]int{},
		lockNames: map[*value]string{},
		concrete:  concrete,
		tags:      map[string]bool{},
		ghost:     map[string]value{},
	}
	sol.beginPath()
	reason := "completed"
	func() {
		defer func() {
			if x := recover(); x != nil {
				switch x := x.(type) {
				case pathAbort:
					reason = x.why
				case threadCrash:
					reason = "panic"
					func() {
						defer func() {
							if y := recover(); y != nil {
								if _, ok := y.(pathAbort); !ok {
									panic(y)
								}
							}
						}()
						p.violation("no-panic", nil, "panic in goroutine: "+panicText(p, x.x))
					}()
				case targetPanic:
					reason = "panic"
					if p.expectPanic {
						reason = "expected-panic"
						return
					}
					func() {
						defer func() {
							if y := recover(); y != nil {
								if _, ok := y.(pathAbort); !ok {
									panic(y)
								}
							}
						}()
						p.violation("no-panic", nil, "panic: "+panicText(p, x))
					}()
				case engineError:
					reason = "engine-error"
					r.mu.Lock()
					if r.fatal == "" {
						r.fatal = x.msg
					}
					r.stopped = true
					r.mu.Unlock()
					r.cond.Broadcast()
				default:
					reason = "engine-crash"
					r.mu.Lock()
					if r.fatal == "" {
						r.fatal = fmt.Sprintf("engine crash: %v\n%s", x, debug.Stack())
					}
					r.stopped = true
					r.mu.Unlock()
					r.cond.Broadcast()
				}
			}
		}()
		// package initialisation (piko packages only; externals are skipped)
		if init := r.entry.Pkg.Func("init"); init != nil {
			callSSA(p, nil, 0, init, nil, nil)
		}
		defer p.endThreads()
		callSSA(p, nil, 0, r.entry, nil, nil)
		if len(p.held) > 0 {
			var names []string
			for m := range p.held {
				names = append(names, p.lockNames[m])
			}
			sort.Strings(names)
			p.violationNoAbort("locks-held-at-exit", strings.Join(names, ","))
		}
	}()
	// translator validation: keep the solver's model of some completed paths
	// so that they can be re-run natively (same inputs => same input sequence,
	// no assertion failure)
	if reason == "completed" && concrete == nil && r.native && r.validateWant > 0 && len(p.inputs) > 0 {
		r.mu.Lock()
		r.completedSeen++
		take := len(r.natSamples) < r.validateWant && (r.completedSeen <= 2 || r.completedSeen%r.validateEvery == 0)
		r.mu.Unlock()
		if take {
			func() {
				defer func() { recover() }()
				if p.check(nil, false) == rSat {
					in, order := p.model()
					r.mu.Lock()
					r.natSamples = append(r.natSamples, &Violation{Harness: r.name, Property: r.prop, Params: r.params, Inputs: in, Order: order, Pkg: r.pkg})
					r.mu.Unlock()
				}
			}()
		}
	}
	sol.endPath()

	r.mu.Lock()
	r.paths++
	r.aborts[reason]++
	r.steps += p.steps
	if len(p.decisions) > r.maxDepth {
		r.maxDepth = len(p.decisions)
	}
	if p.inexact {
		r.inexact++
	}
	if len(r.samples) < 3 && reason == "completed" && len(p.inputs) > 0 {
		names := []string{}
		for _, in := range p.inputs {
			if len(names) < 24 {
				names = append(names, in.Name)
			}
		}
		r.samples = append(r.samples, map[string]interface{}{
			"decisions": append([]int32(nil), p.decisions...),
			"inputs":    names,
			"steps":     p.steps,
			"outcome":   reason,
		})
	}
	over := r.paths >= int64(r.eng.maxPaths)
	r.mu.Unlock()
	if over {
		r.noteUndecided(fmt.Sprintf("path budget %d exhausted", r.eng.maxPaths))
		r.mu.Lock()
		r.stopped = true
		r.mu.Unlock()
		r.cond.Broadcast()
	}
}

func (p *Path) violationNoAbort(label, detail string) {
	defer func() {
		if y := recover(); y != nil {
			if _, ok := y.(pathAbort); !ok {
				panic(y)
			}
		}
	}()
	p.violation(label, nil, detail)
}

func panicText(p *Path, x targetPanic) string {
	switch v := x.v.(type) {
	case iface:
		if v.t == rtErrType {
			return fmt.Sprint(v.v)
		}
		if s, ok := v.v.(string); ok {
			return s
		}
		// error value: try its Error method
		if ptr, ok := v.v.(*value); ok && ptr != nil {
			if st, ok := (*ptr).(structure); ok && len(st) > 0 {
				if s, ok := st[0].(string); ok {
					return s
				}
			}
		}
	}
	return toString(x.v)
}

func (r *HarnessRun) execute(workers int) {
	r.t0 = time.Now()
	r.cond = sync.NewCond(&r.mu)
	r.aborts = map[string]int64{}
	r.asserts = map[string]*labelStat{}
	r.covers = map[string]int64{}
	r.known = map[string]int64{}
	r.knownWhat = map[string]string{}
	r.queue = [][]int32{nil}
	var wg sync.WaitGroup
	for w := 0; w < workers; w++ {
		wg.Add(1)
		go func() {
			defer wg.Done()
			sol, err := newSolver(r.eng.solverBin, r.eng.solverTimeoutMs)
			if err != nil {
				r.mu.Lock()
				r.fatal = "cannot start solver: " + err.Error()
				r.stopped = true
				r.mu.Unlock()
				r.cond.Broadcast()
				return
			}
			defer sol.close()
			for {
				prefix, ok := r.pop()
				if !ok {
					return
				}
				r.runPath(sol, prefix, nil)
				r.done()
			}
		}()
	}
	stopProgress := make(chan struct{})
	go func() {
		tk := time.NewTicker(30 * time.Second)
		defer tk.Stop()
		for {
			select {
			case <-stopProgress:
				return
			case <-tk.C:
				r.mu.Lock()
				fmt.Fprintf(os.Stderr, "[%s] %s: ... %d paths so far, queue=%d, violations=%d, %.0fs\n", r.prop, r.name, r.paths, len(r.queue), len(r.violations), time.Since(r.t0).Seconds())
				r.mu.Unlock()
			}
		}
	}()
	wg.Wait()
	close(stopProgress)
	r.wall = time.Since(r.t0)
}

// executeConcrete runs the harness once with fixed inputs (engine-side replay).
func (r *HarnessRun) executeConcrete(inputs map[string]interface{}) {
	r.t0 = time.Now()
	r.cond = sync.NewCond(&r.mu)
	r.aborts = map[string]int64{}
	r.asserts = map[string]*labelStat{}
	r.covers = map[string]int64{}
	r.known = map[string]int64{}
	r.knownWhat = map[string]string{}
	sol, err := newSolver(r.eng.solverBin, r.eng.solverTimeoutMs)
	if err != nil {
		r.fatal = err.Error()
		return
	}
	defer sol.close()
	r.inflight = 1
	r.runPath(sol, nil, inputs)
	r.wall = time.Since(r.t0)
}

var _ = runtime.NumCPU
var _ = json.Marshal
var _ = os.Exit
