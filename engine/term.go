package main

// SMT terms. A *Term is the engine's representation of a symbolic scalar
// (bool, fixed-width integer, float64 or string). Concrete scalars are kept as
// native Go values by the interpreter and only lifted to literal terms when
// they meet a symbolic operand.

import (
	"fmt"
	"math"
	"strconv"
	"strings"
)

type sortKind uint8

const (
	kBool sortKind = iota
	kBV
	kFP  // float64: (_ FloatingPoint 11 53)
	kF32 // float32: (_ FloatingPoint 8 24)
	kStr
	kInt // mathematical integers (only for string lengths / str.from_int)
)

type Sort struct {
	k sortKind
	w int // bit width for kBV
}

func (s Sort) String() string {
	switch s.k {
	case kBool:
		return "Bool"
	case kBV:
		return fmt.Sprintf("(_ BitVec %d)", s.w)
	case kFP:
		return "(_ FloatingPoint 11 53)"
	case kF32:
		return "(_ FloatingPoint 8 24)"
	case kStr:
		return "String"
	case kInt:
		return "Int"
	}
	return "?"
}

var (
	sortBool = Sort{k: kBool}
	sortFP   = Sort{k: kFP}
	sortStr  = Sort{k: kStr}
	sortInt  = Sort{k: kInt}
)

func sortBV(w int) Sort { return Sort{k: kBV, w: w} }

// Term is an immutable DAG node.
type Term struct {
	op   string  // "" for leaves
	args []*Term // operands
	sort Sort
	lit  string // leaf: SMT text (literal or declared constant name)
	isVar bool  // leaf that is a declared constant

	// literal payloads (valid when op=="" && !isVar)
	bv uint64
	b  bool
	s  string
	f  float64

	id      int  // unique per path (assigned lazily by the solver session)
	defined bool // already sent to the solver as define-fun t<id>

	// decOf: if this string term is decimal(x) for an integer term x (made by
	// strconv.Itoa/FormatUint), decOf is x and decSigned tells its signedness.
	decOf     *Term
	decSigned bool

	// hexOf: if this string term is hex(x) (strconv.FormatUint(x, 16)).
	hexOf *Term
}

func (t *Term) isLit() bool { return t.op == "" && !t.isVar }

func mkBool(b bool) *Term {
	if b {
		return &Term{sort: sortBool, lit: "true", b: true}
	}
	return &Term{sort: sortBool, lit: "false", b: false}
}

func mask(w int) uint64 {
	if w >= 64 {
		return ^uint64(0)
	}
	return (uint64(1) << uint(w)) - 1
}

func mkBV(w int, v uint64) *Term {
	v &= mask(w)
	var lit string
	if w%4 == 0 {
		lit = fmt.Sprintf("#x%0*x", w/4, v)
	} else {
		lit = "#b" + fmt.Sprintf("%0*b", w, v)
	}
	return &Term{sort: sortBV(w), lit: lit, bv: v}
}

func mkIntLit(v int64) *Term {
	var lit string
	if v < 0 {
		lit = fmt.Sprintf("(- %d)", -v)
	} else {
		lit = strconv.FormatInt(v, 10)
	}
	return &Term{sort: sortInt, lit: lit, bv: uint64(v)}
}

func smtString(s string) string {
	var sb strings.Builder
	sb.WriteByte('"')
	for _, r := range []byte(s) {
		switch {
		case r == '"':
			sb.WriteString(`""`)
		case r == '\\':
			sb.WriteString(`\u{5c}`)
		case r >= 0x20 && r < 0x7f:
			sb.WriteByte(r)
		default:
			fmt.Fprintf(&sb, `\u{%x}`, r)
		}
	}
	sb.WriteByte('"')
	return sb.String()
}

func mkStr(s string) *Term {
	return &Term{sort: sortStr, lit: smtString(s), s: s}
}

func mkFP(f float64) *Term {
	bits := math.Float64bits(f)
	sign := bits >> 63
	exp := (bits >> 52) & 0x7ff
	man := bits & ((1 << 52) - 1)
	lit := fmt.Sprintf("(fp #b%b #b%011b #b%052b)", sign, exp, man)
	return &Term{sort: sortFP, lit: lit, f: f}
}

func mkVar(name string, s Sort) *Term {
	return &Term{sort: s, lit: name, isVar: true}
}

func mkOp(op string, s Sort, args ...*Term) *Term {
	return &Term{op: op, sort: s, args: args}
}

// ---- boolean helpers with light folding ----

func tNot(a *Term) *Term {
	if a.isLit() {
		return mkBool(!a.b)
	}
	if a.op == "not" {
		return a.args[0]
	}
	return mkOp("not", sortBool, a)
}

func tAnd(a, b *Term) *Term {
	if a.isLit() {
		if a.b {
			return b
		}
		return a
	}
	if b.isLit() {
		if b.b {
			return a
		}
		return b
	}
	return mkOp("and", sortBool, a, b)
}

func tOr(a, b *Term) *Term {
	if a.isLit() {
		if a.b {
			return a
		}
		return b
	}
	if b.isLit() {
		if b.b {
			return b
		}
		return a
	}
	return mkOp("or", sortBool, a, b)
}

func tImplies(a, b *Term) *Term { return tOr(tNot(a), b) }

func tEq(a, b *Term) *Term {
	if a == b {
		// NaN != NaN for floats
		if a.sort.k != kFP {
			return mkBool(true)
		}
	}
	if a.isLit() && b.isLit() {
		switch a.sort.k {
		case kBool:
			return mkBool(a.b == b.b)
		case kBV, kInt:
			return mkBool(a.bv == b.bv)
		case kStr:
			return mkBool(a.s == b.s)
		case kFP:
			return mkBool(a.f == b.f)
		}
	}
	if a.sort.k == kFP {
		return mkOp("fp.eq", sortBool, a, b)
	}
	// decimal(x) == decimal(y)  <=>  x == y (same width & signedness)
	if a.decOf != nil && b.decOf != nil && a.decOf.sort == b.decOf.sort && a.decSigned == b.decSigned {
		return tEq(a.decOf, b.decOf)
	}
	return mkOp("=", sortBool, a, b)
}

func tIte(c, a, b *Term) *Term {
	if c.isLit() {
		if c.b {
			return a
		}
		return b
	}
	if a == b {
		return a
	}
	return mkOp("ite", a.sort, c, a, b)
}

// termSize is used for statistics only.
func termSize(t *Term, seen map[*Term]bool) int {
	if seen[t] {
		return 0
	}
	seen[t] = true
	n := 1
	for _, a := range t.args {
		n += termSize(a, seen)
	}
	return n
}
