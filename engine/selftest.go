package main

import "fmt"

// cmdSelftest is extended in selftest_impl (translator validation).
func cmdSelftest(args []string) int {
	return runSelftest(args)
}

var _ = fmt.Sprint
