package main

import (
	"fmt"
	"os"
	"sort"
	"strings"
	"time"
)

// selftest: programs with known verdicts (harness/zzverif/selftest) run
// through the same load / execute / solver path as the property checks.

type stCase struct {
	fn      string
	want    []string // exact set of reported labels (empty: must hold)
	covers  []string
	lockset bool
	params  map[string]int
}

var stCases = []stCase{
	{fn: "ST_wraparound", want: []string{"ST/no-wrap"}},
	{fn: "ST_bits_hold", covers: []string{"big", "small"}},
	{fn: "ST_decimal_roundtrip"},
	{fn: "ST_string_eq", want: []string{"ST/not-always"}},
	{fn: "ST_map_slice", want: []string{"ST/len"}},
	{fn: "ST_nil_map_panics", want: []string{"no-panic"}},
	{fn: "ST_self_deadlock", want: []string{"self-deadlock"}},
	{fn: "ST_lock_leak", want: []string{"locks-held-at-exit"}},
	{fn: "ST_recursive_rlock", want: []string{"recursive-read-lock"}},
	{fn: "ST_race", want: []string{"data-race"}},
	{fn: "ST_no_race_with_lock", covers: []string{"joined"}},
	{fn: "ST_lost_update", want: []string{"ST/lost-update"}},
	{fn: "ST_abba_deadlock", want: []string{"deadlock"}},
	{fn: "ST_missing_done", want: []string{"deadlock"}},
	{fn: "ST_goroutine_panic", want: []string{"no-panic"}},
	{fn: "ST_pump_ok", covers: []string{"a-closes", "b-closes", "both-close"}},
	{fn: "ST_pump_leak", want: []string{"ST/pump/a-leg-closed", "deadlock"}},
}

func runSelftest(args []string) int {
	t0 := time.Now()
	eng := loadEngine([]string{"zzverif/selftest"})
	sp := eng.pkgs[pikoMod+"/zzverif/selftest"]
	if sp == nil {
		fmt.Fprintln(os.Stderr, "selftest: package not loaded")
		return 2
	}
	failed := 0
	for _, c := range stCases {
		entry := sp.Func(c.fn)
		if entry == nil {
			fmt.Fprintf(os.Stderr, "selftest FAIL %s: not found\n", c.fn)
			failed++
			continue
		}
		eng.unwind = 64
		eng.maxPaths = 200000
		eng.lockset = nil
		if c.lockset {
			eng.lockset = newLockset()
		}
		params := c.params
		if params == nil {
			params = map[string]int{}
		}
		run := &HarnessRun{eng: eng, prop: "SELFTEST", name: c.fn, pkg: "zzverif/selftest", entry: entry, params: params}
		run.execute(8)
		got := map[string]bool{}
		for _, v := range run.violations {
			got[v.Label] = true
		}
		var gotL []string
		for l := range got {
			gotL = append(gotL, l)
		}
		sort.Strings(gotL)
		want := append([]string(nil), c.want...)
		sort.Strings(want)
		problems := []string{}
		if strings.Join(gotL, ",") != strings.Join(want, ",") {
			problems = append(problems, fmt.Sprintf("labels %v, want %v", gotL, want))
		}
		if run.fatal != "" {
			problems = append(problems, "fatal: "+run.fatal)
		}
		if len(run.undecided) > 0 {
			problems = append(problems, "undecided: "+run.undecided[0])
		}
		for _, cv := range c.covers {
			if run.covers[cv] == 0 {
				problems = append(problems, "cover "+cv+" not reached")
			}
		}
		if len(problems) > 0 {
			failed++
			fmt.Fprintf(os.Stderr, "selftest FAIL %s: %s\n", c.fn, strings.Join(problems, "; "))
		} else {
			fmt.Fprintf(os.Stderr, "selftest ok   %s (%d paths)\n", c.fn, run.paths)
		}
	}
	fmt.Fprintf(os.Stderr, "selftest: %d cases, %d failed, %.1fs\n", len(stCases), failed, time.Since(t0).Seconds())
	if failed > 0 {
		return 1
	}
	return 0
}
