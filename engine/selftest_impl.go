package main

func runSelftest(args []string) int { return 0 }
