package main

// strconv.FormatUint for bases other than 10.

import (
	"fmt"
	"go/types"
	"strconv"
)

func formatUint(fr *frame, x, base value) value {
	b, ok := base.(int)
	if !ok {
		panic(engineError{"strconv.FormatUint: symbolic base"})
	}
	if b == 10 {
		return decimalOf(x, types.Typ[types.Uint64], false)
	}
	xt, sym := x.(*Term)
	if !sym {
		return strconv.FormatUint(uint64(asInt64(x)), b)
	}
	if b != 16 {
		panic(engineError{fmt.Sprintf("strconv.FormatUint: base %d of a symbolic value is unsupported", b)})
	}
	return hexOf(xt)
}

// hexOf builds the lower-case hexadecimal string of a 64-bit term without
// leading zeros (exactly strconv.FormatUint(x, 16)).
func hexOf(x *Term) *Term {
	w := x.sort.w
	n := w / 4
	digits := "0123456789abcdef"
	digit := func(k int) *Term {
		nib := mkOp(fmt.Sprintf("(_ extract %d %d)", 4*k+3, 4*k), sortBV(4), x)
		var t *Term = mkStr("f")
		for d := 14; d >= 0; d-- {
			t = tIte(tEq(nib, mkBV(4, uint64(d))), mkStr(string(digits[d])), t)
		}
		return t
	}
	suffix := digit(0)
	res := suffix
	for k := 1; k < n; k++ {
		suffix = mkOp("str.++", sortStr, digit(k), suffix)
		ge := mkOp("bvuge", sortBool, x, mkBV(w, uint64(1)<<uint(4*k)))
		res = tIte(ge, suffix, res)
	}
	if res.op == "" {
		res = mkOp("str.++", sortStr, res, mkStr(""))
	}
	res.hexOf = x
	return res
}
