package main

// Translator validation (Serval-style): the solver's models of completed
// symbolic paths are replayed against the NATIVE build of the same harness.
// The native run must consume the same sequence of harness inputs as the
// symbolic path did and must neither fail an assertion nor an assumption.
// A disagreement means the engine's semantics (instructions, intrinsics, map
// order, ...) differ from the compiler's on that path.

import (
	"fmt"
	"os"
	"os/exec"
	"path/filepath"
	"regexp"
	"strings"
)

var caseRe = regexp.MustCompile(`(?m)^GOSYM-CASE (\d+) outcome=(\S+) diverged=(\d+) consumed=(\S*)$`)

func harnessInputs(order []string) []string {
	var out []string
	for _, n := range order {
		if !strings.HasPrefix(n, "~") {
			out = append(out, n)
		}
	}
	return out
}

// validateNative replays the samples natively; returns (#agreeing, problems).
func validateNative(pkgRel string, samples []*Violation) (int, []string) {
	if len(samples) == 0 {
		return 0, nil
	}
	virt, real := genReplayTest(pkgRel)
	ovPath := writeOverlayJSON(map[string]string{virt: real})
	defer os.Remove(ovPath)
	casesPath := filepath.Join(outDir, fmt.Sprintf("cases-%d.json", os.Getpid()))
	writeJSON(casesPath, samples)
	defer os.Remove(casesPath)
	cmd := exec.Command("go", "test", "-tags", "verif", "-vet=off", "-count=1", "-v", "-overlay", ovPath, "-run", "^TestGosymReplay$", "./"+pkgRel)
	cmd.Dir = repoDir
	cmd.Env = append(goEnv(), "GOSYM_REPLAY_CASES="+casesPath)
	out, err := cmd.CombinedOutput()
	s := string(out)
	ms := caseRe.FindAllStringSubmatch(s, -1)
	if len(ms) != len(samples) {
		return 0, []string{fmt.Sprintf("native validation run of %s produced %d of %d case lines (err=%v): %s", pkgRel, len(ms), len(samples), err, firstLines(s, 8))}
	}
	agree := 0
	var problems []string
	for i, m := range ms {
		want := strings.Join(harnessInputs(samples[i].Order), ",")
		got := strings.Join(harnessInputs(strings.Split(m[4], ",")), ",")
		switch {
		case m[2] != "completed":
			problems = append(problems, fmt.Sprintf("%s: a completed symbolic path ends natively with %s (inputs %v)", samples[i].Harness, m[2], samples[i].Inputs))
		case got != want:
			problems = append(problems, fmt.Sprintf("%s: native run consumed different inputs than the symbolic path: native=[%s] symbolic=[%s]", samples[i].Harness, got, want))
		default:
			agree++
		}
	}
	return agree, problems
}
