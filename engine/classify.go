package main

// Decides, per called function, whether it is interpreted from its SSA,
// replaced by an engine intrinsic or a harness stub, treated as opaque
// (logging / metrics), skipped (foreign package init) or unsupported.

import (
	"strings"
	"sync"

	"golang.org/x/tools/go/ssa"
)

type fnKind int

const (
	fkInterp fnKind = iota
	fkIntrinsic
	fkStub
	fkOpaque
	fkSkip
	fkUnsupported
)

type intrinsicFn func(fr *frame, args []value) value

// condStub is a stub that applies only on paths that set its tag (v.Tag).
type condStub struct {
	tag string
	fn  *ssa.Function
}

type fnInfo struct {
	kind fnKind
	h    intrinsicFn
	stub    *ssa.Function
	stubTag string
	cond    []condStub // conditional stubs (tag -> function)
	name    string
}

// packages whose calls have no effect on piko state (logging, metrics, JSON
// bodies of error responses).
var opaquePkgs = []string{
	"go.uber.org/zap",
	"github.com/prometheus/",
	pikoMod + "/pkg/log",
	"log",
	"encoding/json",
	"expvar",
	"net/http/pprof",
}

// std / third-party packages whose (pure) functions may be interpreted from
// their SSA when no intrinsic exists.
var interpPkgs = []string{
	"strings", "strconv", "slices", "sort", "bytes", "unicode", "unicode/utf8",
	"math", "math/bits", "net/textproto", "net/url",
	"internal/bytealg", "internal/stringslite", "internal/itoa", "errors",
	"internal/byteorder", "cmp", "maps", "iter", "net/http", "io", "path",
	"golang.org/x/net/http/httpguts", "bufio",
}

func (e *Engine) isOpaquePkg(path string) bool {
	for _, p := range opaquePkgs {
		if path == p || (strings.HasSuffix(p, "/") && strings.HasPrefix(path, p)) || strings.HasPrefix(path, p+"/") {
			return true
		}
	}
	return false
}

var fnCache sync.Map // *ssa.Function -> *fnInfo

func (e *Engine) classify(fn *ssa.Function) *fnInfo {
	if v, ok := fnCache.Load(fn); ok {
		return v.(*fnInfo)
	}
	info := e.classify1(fn)
	fnCache.Store(fn, info)
	return info
}

func (e *Engine) classify1(fn *ssa.Function) *fnInfo {
	name := fn.String()
	info := &fnInfo{name: name}
	// strip generic instantiation suffix for table lookups: slices.Contains[[]string,string]
	base := name
	if i := strings.IndexByte(base, '['); i > 0 && fn.Origin() != nil {
		base = fn.Origin().String()
	}
	// conditional stubs (active on paths that set their tag) take precedence
	// over whatever the unconditional classification is
	info.cond = e.condStubs[base]
	if stub, ok := e.stubs[base]; ok {
		info.stub = stub
		info.kind = fkStub
		return info
	}
	if h, ok := intrinsics[base]; ok {
		info.kind, info.h = fkIntrinsic, h
		return info
	}
	path := pkgPathOf(fn)
	if path == pikoMod+"/zzverif" {
		if h, ok := rtIntrinsics[fn.Name()]; ok {
			info.kind, info.h = fkIntrinsic, h
			return info
		}
		info.kind = fkInterp // helper written in Go inside zzverif
		return info
	}
	if path == "" {
		info.kind = fkInterp // synthetic wrapper / bound method / thunk
		return info
	}
	if fn.Name() == "init" && fn.Signature.Recv() == nil && (fn.Synthetic != "" || strings.HasPrefix(fn.Name(), "init")) {
		if !isPikoPath(path) || e.isOpaquePkg(path) {
			info.kind = fkSkip
			return info
		}
	}
	if e.isOpaquePkg(path) {
		info.kind = fkOpaque
		return info
	}
	if isPikoPath(path) {
		info.kind = fkInterp
		return info
	}
	for _, p := range interpPkgs {
		if path == p {
			if fn.Blocks == nil {
				info.kind = fkUnsupported
				info.name = name + " (no Go body)"
				return info
			}
			info.kind = fkInterp
			return info
		}
	}
	info.kind = fkUnsupported
	return info
}
