package main

// Driver for one persistent solver process (z3 -in). One Solver per worker.
// A path is bracketed by (push 1)/(pop 1); all declarations, definitions and
// assertions of a path live inside that scope.

import (
	"bufio"
	"fmt"
	"io"
	"os"
	"os/exec"
	"strings"
	"sync/atomic"
	"time"
)

type SolverStats struct {
	Queries    int64
	Sat        int64
	Unsat      int64
	Unknown    int64
	Errors     int64
	SolverNs   int64
	Restarts   int64
	XCheck     int64
	XDisagree  int64
	XUnknown   int64
}

var gstats SolverStats

type Solver struct {
	cmd     *exec.Cmd
	in      io.WriteCloser
	out     *bufio.Reader
	bin     string
	timeout int // ms per query

	nextID     int
	transcript []string // commands of the current path (for cross-checks / dumps)
	pending    strings.Builder
	inPath     bool
	lastErr    string
	paths      int
}

func newSolver(bin string, timeoutMs int) (*Solver, error) {
	s := &Solver{bin: bin, timeout: timeoutMs}
	if err := s.start(); err != nil {
		return nil, err
	}
	return s, nil
}

func (s *Solver) start() error {
	args := []string{"-in", "-smt2", fmt.Sprintf("-t:%d", s.timeout)}
	if strings.Contains(s.bin, "cvc5") {
		args = []string{"--incremental", "--lang=smt2", fmt.Sprintf("--tlimit-per=%d", s.timeout), "--strings-exp", "--produce-models"}
	}
	cmd := exec.Command(s.bin, args...)
	in, err := cmd.StdinPipe()
	if err != nil {
		return err
	}
	out, err := cmd.StdoutPipe()
	if err != nil {
		return err
	}
	cmd.Stderr = os.Stderr
	if err := cmd.Start(); err != nil {
		return err
	}
	s.cmd, s.in, s.out = cmd, in, bufio.NewReaderSize(out, 1<<16)
	s.send("(set-option :produce-models true)")
	if strings.Contains(s.bin, "cvc5") {
		s.send("(set-logic ALL)")
	}
	return nil
}

func (s *Solver) close() {
	if s.cmd != nil {
		s.in.Close()
		s.cmd.Process.Kill()
		s.cmd.Wait()
		s.cmd = nil
	}
}

func (s *Solver) restart() {
	s.close()
	atomic.AddInt64(&gstats.Restarts, 1)
	if err := s.start(); err != nil {
		panic(engineError{"solver restart: " + err.Error()})
	}
}

func (s *Solver) send(line string) {
	s.pending.WriteString(line)
	s.pending.WriteByte('\n')
	if s.inPath {
		s.transcript = append(s.transcript, line)
	}
}

func (s *Solver) flush() {
	if s.pending.Len() == 0 {
		return
	}
	if _, err := io.WriteString(s.in, s.pending.String()); err != nil {
		panic(engineError{"solver write: " + err.Error()})
	}
	s.pending.Reset()
}

func (s *Solver) beginPath() {
	s.paths++
	if s.paths%400 == 0 {
		// bound solver memory growth
		s.restart()
	}
	s.nextID = 0
	s.transcript = s.transcript[:0]
	s.inPath = true
	s.lastErr = ""
	s.send("(push 1)")
}

func (s *Solver) endPath() {
	s.send("(pop 1)")
	s.inPath = false
	s.flush()
}

// ref returns the SMT text referring to t, emitting define-funs as needed.
func (s *Solver) ref(t *Term) string {
	if t.op == "" {
		return t.lit
	}
	if t.defined {
		return t.lit
	}
	var sb strings.Builder
	sb.WriteByte('(')
	sb.WriteString(t.op)
	for _, a := range t.args {
		sb.WriteByte(' ')
		sb.WriteString(s.ref(a))
	}
	sb.WriteByte(')')
	s.nextID++
	t.id = s.nextID
	name := fmt.Sprintf("t%d", t.id)
	s.send(fmt.Sprintf("(define-fun %s () %s %s)", name, t.sort, sb.String()))
	t.defined = true
	t.lit = name
	return name
}

func (s *Solver) declare(name string, so Sort) {
	s.send(fmt.Sprintf("(declare-const %s %s)", name, so))
}

func (s *Solver) assert(t *Term) {
	s.send("(assert " + s.ref(t) + ")")
}

type satResult int

const (
	rUnsat satResult = iota
	rSat
	rUnknown
)

func (r satResult) String() string { return [...]string{"unsat", "sat", "unknown"}[r] }

// check asks whether pc ∧ extra is satisfiable (extra may be nil).
func (s *Solver) check(extra *Term, negate bool) satResult {
	var q string
	if extra == nil {
		q = "(check-sat)"
	} else {
		r := s.ref(extra)
		if negate {
			r = "(not " + r + ")"
		}
		q = "(check-sat-assuming (" + r + "))"
	}
	s.pending.WriteString(q)
	s.pending.WriteByte('\n')
	t0 := time.Now()
	s.flush()
	res := s.readResult()
	atomic.AddInt64(&gstats.SolverNs, int64(time.Since(t0)))
	atomic.AddInt64(&gstats.Queries, 1)
	switch res {
	case rSat:
		atomic.AddInt64(&gstats.Sat, 1)
	case rUnsat:
		atomic.AddInt64(&gstats.Unsat, 1)
	default:
		atomic.AddInt64(&gstats.Unknown, 1)
	}
	if s.inPath {
		s.transcript = append(s.transcript, "; "+q+" -> "+res.String())
	}
	return res
}

func (s *Solver) readLine() string {
	line, err := s.out.ReadString('\n')
	if err != nil {
		panic(engineError{"solver died: " + err.Error() + " last=" + s.lastErr})
	}
	return strings.TrimSpace(line)
}

func (s *Solver) readResult() satResult {
	sawErr := false
	for {
		line := s.readLine()
		switch {
		case line == "sat":
			if sawErr {
				return rUnknown
			}
			return rSat
		case line == "unsat":
			if sawErr {
				return rUnknown
			}
			return rUnsat
		case line == "unknown" || line == "timeout":
			return rUnknown
		case strings.HasPrefix(line, "(error"):
			// may span lines; read until balanced
			for strings.Count(line, "(") > strings.Count(line, ")") {
				line += " " + s.readLine()
			}
			s.lastErr = line
			sawErr = true
			atomic.AddInt64(&gstats.Errors, 1)
			fmt.Fprintln(os.Stderr, "SOLVER ERROR:", line)
		case line == "" || line == "success":
		default:
			// unsupported / other noise
			s.lastErr = line
		}
	}
}

// getValues returns the model values (as raw SMT text) of the given names.
// Must be called right after a sat answer.
func (s *Solver) getValues(names []string) map[string]string {
	res := map[string]string{}
	const chunk = 64
	for i := 0; i < len(names); i += chunk {
		j := i + chunk
		if j > len(names) {
			j = len(names)
		}
		s.pending.WriteString("(get-value (" + strings.Join(names[i:j], " ") + "))\n")
		s.flush()
		txt := s.readSexpr()
		sx := parseSexpr(txt)
		for _, pair := range sx.list {
			if len(pair.list) == 2 {
				res[pair.list[0].String()] = pair.list[1].String()
			}
		}
	}
	return res
}

func (s *Solver) readSexpr() string {
	var sb strings.Builder
	depth := 0
	started := false
	inStr := false
	for {
		line, err := s.out.ReadString('\n')
		if err != nil {
			panic(engineError{"solver died during get-value"})
		}
		for i := 0; i < len(line); i++ {
			c := line[i]
			if inStr {
				if c == '"' {
					inStr = false
				}
				continue
			}
			switch c {
			case '"':
				inStr = true
			case '(':
				depth++
				started = true
			case ')':
				depth--
			}
		}
		sb.WriteString(line)
		if started && depth <= 0 && !inStr {
			return sb.String()
		}
	}
}

// ---- tiny s-expression parser ----

type sexpr struct {
	atom string
	list []*sexpr
	isList bool
}

func (e *sexpr) String() string {
	if !e.isList {
		return e.atom
	}
	parts := make([]string, len(e.list))
	for i, x := range e.list {
		parts[i] = x.String()
	}
	return "(" + strings.Join(parts, " ") + ")"
}

func parseSexpr(s string) *sexpr {
	pos := 0
	var parse func() *sexpr
	skip := func() {
		for pos < len(s) && (s[pos] == ' ' || s[pos] == '\n' || s[pos] == '\t' || s[pos] == '\r') {
			pos++
		}
	}
	parse = func() *sexpr {
		skip()
		if pos >= len(s) {
			return &sexpr{}
		}
		if s[pos] == '(' {
			pos++
			e := &sexpr{isList: true}
			for {
				skip()
				if pos >= len(s) {
					return e
				}
				if s[pos] == ')' {
					pos++
					return e
				}
				e.list = append(e.list, parse())
			}
		}
		if s[pos] == '"' {
			start := pos
			pos++
			for pos < len(s) {
				if s[pos] == '"' {
					if pos+1 < len(s) && s[pos+1] == '"' {
						pos += 2
						continue
					}
					pos++
					break
				}
				pos++
			}
			return &sexpr{atom: s[start:pos]}
		}
		start := pos
		for pos < len(s) && !strings.ContainsRune(" \n\t\r()", rune(s[pos])) {
			pos++
		}
		return &sexpr{atom: s[start:pos]}
	}
	return parse()
}

// runOneShot runs a complete script through another solver binary and returns
// its answer to the final check-sat.
func runOneShot(bin string, script string, timeoutS int) (satResult, string) {
	f, err := os.CreateTemp("/verif/out", "xc-*.smt2")
	if err != nil {
		return rUnknown, err.Error()
	}
	defer os.Remove(f.Name())
	f.WriteString(script)
	f.Close()
	var args []string
	if strings.Contains(bin, "cvc5") {
		args = []string{"--lang=smt2", "--strings-exp", fmt.Sprintf("--tlimit=%d", timeoutS*1000), f.Name()}
	} else {
		args = []string{fmt.Sprintf("-T:%d", timeoutS), f.Name()}
	}
	out, _ := exec.Command(bin, args...).CombinedOutput()
	txt := strings.TrimSpace(string(out))
	if strings.Contains(txt, "(error") {
		return rUnknown, txt
	}
	lines := strings.Split(txt, "\n")
	last := strings.TrimSpace(lines[len(lines)-1])
	switch last {
	case "sat":
		return rSat, txt
	case "unsat":
		return rUnsat, txt
	}
	return rUnknown, txt
}
