package main

// Cooperative threads: `go` statements of the interpreted code become threads
// of the path. Exactly one thread runs at a time (each is a Go goroutine that
// is handed a baton); the others are parked. Context switches are considered
// only at scheduling points - before a mutex acquisition, when a thread
// blocks (mutex held by another thread, WaitGroup not yet zero), after a `go`
// statement and at thread exit - and which thread runs next is a decision of
// the path like any v.Choose, so the exploration covers every schedule at that
// granularity with at most PB pre-emptions (harness parameter "PB", default
// 2; a switch away from a thread that could have continued is a pre-emption;
// switches forced by blocking or exit are free). For code that only touches
// shared state under its mutexes (checked separately by the lock recorder)
// this granularity loses no behaviour. A state in which some thread is
// unfinished and none can run is reported as a deadlock.

import (
	"fmt"
	"go/token"
	"sort"
	"strings"
	"sync"

	"golang.org/x/tools/go/ssa"
)

type thread struct {
	id        int
	resume    chan struct{}
	done      bool
	blockedOn *value // mutex waited for
	blockedWr bool
	waitWG    *value // WaitGroup waited for
	waitPred  value  // v.WaitUntil predicate waited for
	waitFr    *frame
	held      map[*value]int
	where     string
	vc        vclock
}

type threadKill struct{}

// threadCrash carries a Go panic of the interpreted code that was not
// recovered inside a spawned thread (in Go this ends the program).
type threadCrash struct{ x targetPanic }

type threadState struct {
	threads  []*thread
	cur      *thread
	preempts int
	abort    interface{}
	killed   bool
	wg       sync.WaitGroup
	switches int
	race     *raceState
}

func (p *Path) threadsOn() bool { return p.thr != nil }

func (p *Path) ensureThreads() {
	if p.thr != nil {
		return
	}
	main := &thread{id: 0, resume: make(chan struct{}, 1), held: p.held}
	main.vc[0] = 1
	p.thr = &threadState{threads: []*thread{main}, cur: main, race: newRaceState()}
}

func (p *Path) preemptBound() int {
	if v, ok := p.run.params["PB"]; ok {
		return v
	}
	return 2
}

// spawn starts fn(args) as a new thread (parked until scheduled).
func (p *Path) spawn(where string, pos token.Pos, fn value, args []value) {
	p.ensureThreads()
	ts := p.thr
	if len(ts.threads) >= maxThreads {
		panic(engineError{"more than 8 threads on one path at " + where})
	}
	t := &thread{id: len(ts.threads), resume: make(chan struct{}, 1), held: map[*value]int{}, where: where}
	ts.threads = append(ts.threads, t)
	p.raceOnSpawn(ts.cur, t)
	ts.wg.Add(1)
	go func() {
		defer ts.wg.Done()
		<-t.resume
		x := p.threadBody(t, pos, fn, args)
		if _, killed := x.(threadKill); killed {
			return
		}
		if x != nil {
			// abort of the whole path: hand it to the main thread
			if tp, ok := x.(targetPanic); ok {
				x = threadCrash{tp}
			}
			ts.abort = x
			main := ts.threads[0]
			ts.cur = main
			p.held = main.held
			main.resume <- struct{}{}
			return
		}
	}()
}

func (p *Path) threadBody(t *thread, pos token.Pos, fn value, args []value) (x interface{}) {
	defer func() {
		if r := recover(); r != nil {
			x = r
		}
	}()
	if p.thr.killed {
		panic(threadKill{})
	}
	call(p, nil, pos, fn, args)
	t.done = true
	if len(t.held) > 0 {
		var names []string
		for m := range t.held {
			names = append(names, p.lockNames[m])
		}
		sort.Strings(names)
		p.violationNoAbort("locks-held-at-exit", "thread "+t.where+": "+strings.Join(names, ","))
	}
	p.yield()
	return nil
}

func (p *Path) lockFree(mp *value, write bool) bool {
	st := p.lockState[mp]
	if write {
		return st == 0
	}
	return st <= 0
}

func (p *Path) enabled(t *thread) bool {
	if t.done {
		return false
	}
	if t.blockedOn != nil && !p.lockFree(t.blockedOn, t.blockedWr) {
		return false
	}
	if t.waitWG != nil && p.wgCount[t.waitWG] > 0 {
		return false
	}
	if t.waitPred != nil && !p.truth(call(p, t.waitFr, 0, t.waitPred, nil)) {
		return false
	}
	return true
}

// yield is a scheduling point of the current thread.
func (p *Path) yield() {
	ts := p.thr
	if ts == nil {
		return
	}
	cur := ts.cur
	var en []*thread
	if p.enabled(cur) {
		en = append(en, cur) // index 0: continue
	}
	for _, t := range ts.threads {
		if t != cur && p.enabled(t) {
			en = append(en, t)
		}
	}
	if len(en) == 0 {
		var parts []string
		for _, t := range ts.threads {
			if t.done {
				continue
			}
			what := "?"
			if t.blockedOn != nil {
				what = "mutex " + p.lockNames[t.blockedOn]
			} else if t.waitWG != nil {
				what = "WaitGroup"
			} else if t.waitPred != nil {
				what = "a condition (blocked read) at " + t.waitFr.posOf(t.waitFr.cur)
			}
			name := "main"
			if t.id != 0 {
				name = "goroutine started at " + t.where
			}
			parts = append(parts, name+" waits for "+what)
		}
		p.violation("deadlock", nil, "no thread can run: "+strings.Join(parts, "; "))
		panic(pathAbort{"deadlock"})
	}
	next := en[0]
	curEnabled := en[0] == cur
	if len(en) > 1 {
		if curEnabled && ts.preempts >= p.preemptBound() {
			next = cur
		} else {
			k := p.chooseNamed("~sched", len(en))
			next = en[k]
			if curEnabled && next != cur {
				ts.preempts++
			}
		}
	}
	if next == cur {
		return
	}
	p.switchTo(cur, next)
}

func (p *Path) switchTo(cur, next *thread) {
	ts := p.thr
	ts.switches++
	ts.cur = next
	p.held = next.held
	next.resume <- struct{}{}
	if cur.done {
		return // exiting thread: its goroutine ends
	}
	<-cur.resume
	if ts.killed {
		panic(threadKill{})
	}
	if cur.id == 0 && ts.abort != nil {
		x := ts.abort
		ts.abort = nil
		panic(x)
	}
}

// endThreads releases every parked thread at the end of the path.
func (p *Path) endThreads() {
	ts := p.thr
	if ts == nil {
		return
	}
	ts.killed = true
	for _, t := range ts.threads {
		if t.id != 0 && !t.done {
			select {
			case t.resume <- struct{}{}:
			default:
			}
		}
	}
	ts.wg.Wait()
}

func (p *Path) onGo(fr *frame, instr *ssa.Go) {
	fn, args := prepareCall(fr, &instr.Call)
	p.spawn(fr.posOf(instr), instr.Pos(), fn, args)
	p.yield()
}

// WaitGroups: counters are kept always; Wait blocks only when the path has
// threads (without any, nothing can be outstanding: legacy inert behaviour).
func (p *Path) wgAdd(m value, n int) {
	mp := m.(*value)
	if n < 0 {
		p.raceWgDone(mp)
	}
	p.wgCount[mp] += n
	if p.wgCount[mp] < 0 {
		if p.thr == nil {
			// the matching Add happened in code a stub replaced
			p.wgCount[mp] = 0
			return
		}
		panic(runtimePanic("sync: negative WaitGroup counter"))
	}
}

func (p *Path) wgWait(m value) {
	if p.thr == nil {
		return
	}
	mp := m.(*value)
	t := p.thr.cur
	for p.wgCount[mp] > 0 {
		t.waitWG = mp
		p.yield()
		t.waitWG = nil
	}
	p.raceWgWaited(mp)
}

func (ts *threadState) String() string {
	return fmt.Sprintf("%d threads, %d switches", len(ts.threads), ts.switches)
}
