package main

// Value representation (adapted from golang.org/x/tools/go/ssa/interp, BSD
// licence, heavily modified). All interpreter values are boxed in `value`.
//
//   bool / intN / uintN / float64 / string    concrete scalars (native Go)
//   *Term                                     symbolic scalar of the same Go type
//   *value                                    pointer
//   []value                                   slice (Go aliasing semantics reused)
//   array, structure, tuple                   aggregates
//   iface{t,v}                                interface value
//   *smap                                     map (insertion ordered, symbolic keys allowed)
//   *ssa.Function, *ssa.Builtin, *closure     functions
//   opaque{t}                                 value of an opaque package (logging, metrics)
//   *ctxObj                                   context.Context model

import (
	"bytes"
	"fmt"
	"go/types"
	"sort"
	"strings"
	"unsafe"

	"golang.org/x/tools/go/ssa"
)

type value interface{}

type tuple []value

type array []value

type iface struct {
	t types.Type // never an "untyped" type
	v value
}

type structure []value

type closure struct {
	Fn  *ssa.Function
	Env []value
}

type bad struct{}

type opaque struct {
	t types.Type
}

// iter is implemented by range iterators over maps and strings.
type iter interface {
	next(fr *frame) tuple
}

// ---------------------------------------------------------------------------
// maps

type mapEntry struct {
	key value
	val value
}

type smap struct {
	keyType types.Type
	entries []mapEntry
}

func (m *smap) len() int {
	if m == nil {
		return 0
	}
	return len(m.entries)
}

// find returns the index of key in m (forking on symbolic equalities), or -1.
func (m *smap) find(fr *frame, key value) int {
	if m == nil {
		return -1
	}
	for i := range m.entries {
		eq := equalsV(fr, m.keyType, m.entries[i].key, key)
		if fr.p.truth(eq) {
			return i
		}
	}
	return -1
}

func (m *smap) lookup(fr *frame, key value) (value, bool) {
	i := m.find(fr, key)
	if i < 0 {
		return nil, false
	}
	return m.entries[i].val, true
}

func (m *smap) insert(fr *frame, key, val value) {
	i := m.find(fr, key)
	if i >= 0 {
		m.entries[i].val = val
		return
	}
	m.entries = append(m.entries, mapEntry{key, val})
}

func (m *smap) delete(fr *frame, key value) {
	i := m.find(fr, key)
	if i < 0 {
		return
	}
	m.entries = append(m.entries[:i:i], m.entries[i+1:]...)
}

type mapIter struct {
	snapshot []mapEntry
	m        *smap
	i        int
}

func (it *mapIter) next(fr *frame) tuple {
	for it.i < len(it.snapshot) {
		e := it.snapshot[it.i]
		it.i++
		// Go semantics: an entry deleted during iteration is not produced.
		// Identity check on concrete keys; entries are only removed through
		// smap.delete which rebuilds the slice, so look the key up by identity.
		if it.m != nil {
			present := false
			for j := range it.m.entries {
				if sameKeyIdentity(it.m.entries[j].key, e.key) {
					present = true
					e.val = it.m.entries[j].val
					break
				}
			}
			if !present {
				continue
			}
		}
		return tuple{true, e.key, e.val}
	}
	return tuple{false, nil, nil}
}

func sameKeyIdentity(a, b value) bool {
	switch a := a.(type) {
	case *Term:
		bt, ok := b.(*Term)
		return ok && a == bt
	case structure, array, iface:
		return fmt.Sprint(a) == fmt.Sprint(b)
	}
	defer func() { recover() }()
	return a == b
}

type stringIter struct {
	*strings.Reader
	i int
}

func (it *stringIter) next(fr *frame) tuple {
	okv := make(tuple, 3)
	ch, n, err := it.ReadRune()
	ok := err == nil
	okv[0] = ok
	if ok {
		okv[1] = it.i
		okv[2] = ch
	}
	it.i += n
	return okv
}

// ---------------------------------------------------------------------------
// equality

// nil-tolerant variant of types.Identical.
func sameType(x, y types.Type) bool {
	if x == nil {
		return y == nil
	}
	return y != nil && types.Identical(x, y)
}

// equalsV returns x == y for type t as a concrete bool or a *Term.
func equalsV(fr *frame, t types.Type, x, y value) value {
	// symbolic scalars
	xt, xs := x.(*Term)
	yt, ys := y.(*Term)
	if xs || ys {
		if !xs {
			xt = lift(t, x)
		}
		if !ys {
			yt = lift(t, y)
		}
		r := tEq(xt, yt)
		if r.isLit() {
			return r.b
		}
		return r
	}
	switch x := x.(type) {
	case bool:
		return x == y.(bool)
	case int:
		return x == y.(int)
	case int8:
		return x == y.(int8)
	case int16:
		return x == y.(int16)
	case int32:
		return x == y.(int32)
	case int64:
		return x == y.(int64)
	case uint:
		return x == y.(uint)
	case uint8:
		return x == y.(uint8)
	case uint16:
		return x == y.(uint16)
	case uint32:
		return x == y.(uint32)
	case uint64:
		return x == y.(uint64)
	case uintptr:
		return x == y.(uintptr)
	case float32:
		return x == y.(float32)
	case float64:
		return x == y.(float64)
	case complex64:
		return x == y.(complex64)
	case complex128:
		return x == y.(complex128)
	case string:
		return x == y.(string)
	case *value:
		return x == y.(*value)
	case *ctxObj:
		yy, ok := y.(*ctxObj)
		return ok && x == yy
	case opaque:
		return false
	case *wrapErr:
		yy, ok := y.(*wrapErr)
		return ok && x == yy
	case unsafe.Pointer:
		return x == y.(unsafe.Pointer)
	case structure:
		y := y.(structure)
		tStruct := t.Underlying().(*types.Struct)
		var acc value = true
		for i, n := 0, tStruct.NumFields(); i < n; i++ {
			if f := tStruct.Field(i); f.Name() != "_" {
				acc = andV(acc, equalsV(fr, f.Type(), x[i], y[i]))
				if b, ok := acc.(bool); ok && !b {
					return false
				}
			}
		}
		return acc
	case array:
		y := y.(array)
		tElt := t.Underlying().(*types.Array).Elem()
		var acc value = true
		for i := range x {
			acc = andV(acc, equalsV(fr, tElt, x[i], y[i]))
			if b, ok := acc.(bool); ok && !b {
				return false
			}
		}
		return acc
	case iface:
		y := y.(iface)
		if !sameType(x.t, y.t) {
			return false
		}
		if x.t == nil {
			return true
		}
		return equalsV(fr, x.t, x.v, y.v)
	case chan value:
		return x == y.(chan value)
	}
	panic(engineError{fmt.Sprintf("comparing uncomparable type %s (%T)", t, x)})
}

func andV(a, b value) value {
	ab, aok := a.(bool)
	bb, bok := b.(bool)
	switch {
	case aok && bok:
		return ab && bb
	case aok:
		if ab {
			return b
		}
		return false
	case bok:
		if bb {
			return a
		}
		return false
	}
	return tAnd(a.(*Term), b.(*Term))
}

func notV(a value) value {
	if b, ok := a.(bool); ok {
		return !b
	}
	return tNot(a.(*Term))
}

// eqnil handles comparison of reference types with nil.
func eqnil(fr *frame, t types.Type, x, y value) value {
	switch t.Underlying().(type) {
	case *types.Map, *types.Signature, *types.Slice:
		return isNilRef(x) == isNilRef(y) && (isNilRef(x) || isNilRef(y))
	}
	return equalsV(fr, t, x, y)
}

func isNilRef(x value) bool {
	switch x := x.(type) {
	case *smap:
		return x == nil
	case *ssa.Function:
		return x == nil
	case *closure:
		return x == nil
	case []value:
		return x == nil
	case *ssa.Builtin:
		return false
	case opaque:
		return false
	}
	panic(engineError{fmt.Sprintf("isNilRef: %T", x)})
}

// ---------------------------------------------------------------------------
// load / store with value semantics for aggregates

func load(T types.Type, addr *value) value {
	switch T := T.Underlying().(type) {
	case *types.Struct:
		v, ok := (*addr).(structure)
		if !ok {
			return *addr // opaque
		}
		a := make(structure, len(v))
		for i := range a {
			a[i] = load(T.Field(i).Type(), &v[i])
		}
		return a
	case *types.Array:
		v := (*addr).(array)
		a := make(array, len(v))
		for i := range a {
			a[i] = load(T.Elem(), &v[i])
		}
		return a
	default:
		return *addr
	}
}

func store(T types.Type, addr *value, v value) {
	switch T := T.Underlying().(type) {
	case *types.Struct:
		lhs, ok1 := (*addr).(structure)
		rhs, ok2 := v.(structure)
		if !ok1 || !ok2 {
			*addr = v
			return
		}
		for i := range lhs {
			store(T.Field(i).Type(), &lhs[i], rhs[i])
		}
	case *types.Array:
		lhs := (*addr).(array)
		rhs := v.(array)
		for i := range lhs {
			store(T.Elem(), &lhs[i], rhs[i])
		}
	default:
		*addr = v
	}
}

// copyVal makes an unaliased copy of an aggregate value.
func copyVal(v value) value {
	switch v := v.(type) {
	case structure:
		a := make(structure, len(v))
		for i := range v {
			a[i] = copyVal(v[i])
		}
		return a
	case array:
		a := make(array, len(v))
		for i := range v {
			a[i] = copyVal(v[i])
		}
		return a
	}
	return v
}

// ---------------------------------------------------------------------------
// printing (debugging, Observe, panics)

func writeValue(buf *bytes.Buffer, v value, depth int) {
	if depth > 6 {
		buf.WriteString("...")
		return
	}
	switch v := v.(type) {
	case nil, bool, int, int8, int16, int32, int64, uint, uint8, uint16, uint32, uint64, uintptr, float32, float64, complex64, complex128:
		fmt.Fprintf(buf, "%v", v)
	case string:
		fmt.Fprintf(buf, "%q", v)
	case *Term:
		fmt.Fprintf(buf, "<sym %s>", termBrief(v))
	case *smap:
		buf.WriteString("map[")
		if v != nil {
			strs := make([]string, 0, len(v.entries))
			for _, e := range v.entries {
				var b bytes.Buffer
				writeValue(&b, e.key, depth+1)
				b.WriteString(":")
				writeValue(&b, e.val, depth+1)
				strs = append(strs, b.String())
			}
			sort.Strings(strs)
			buf.WriteString(strings.Join(strs, " "))
		}
		buf.WriteString("]")
	case *value:
		if v == nil {
			buf.WriteString("<nil>")
		} else {
			buf.WriteString("&")
			writeValue(buf, *v, depth+1)
		}
	case iface:
		if v.t == nil {
			buf.WriteString("<nil>")
			return
		}
		fmt.Fprintf(buf, "(%s)", v.t)
		writeValue(buf, v.v, depth+1)
	case structure:
		buf.WriteString("{")
		for i, e := range v {
			if i > 0 {
				buf.WriteString(" ")
			}
			writeValue(buf, e, depth+1)
		}
		buf.WriteString("}")
	case array:
		buf.WriteString("[")
		for i, e := range v {
			if i > 0 {
				buf.WriteString(" ")
			}
			writeValue(buf, e, depth+1)
		}
		buf.WriteString("]")
	case []value:
		buf.WriteString("[")
		for i, e := range v {
			if i > 0 {
				buf.WriteString(" ")
			}
			writeValue(buf, e, depth+1)
		}
		buf.WriteString("]")
	case *ssa.Function:
		if v == nil {
			buf.WriteString("<nil func>")
		} else {
			buf.WriteString(v.String())
		}
	case *ssa.Builtin, *closure:
		fmt.Fprintf(buf, "<func>")
	case tuple:
		buf.WriteString("(")
		for i, e := range v {
			if i > 0 {
				buf.WriteString(", ")
			}
			writeValue(buf, e, depth+1)
		}
		buf.WriteString(")")
	case opaque:
		fmt.Fprintf(buf, "<opaque %s>", v.t)
	default:
		fmt.Fprintf(buf, "<%T>", v)
	}
}

func toString(v value) string {
	var b bytes.Buffer
	writeValue(&b, v, 0)
	return b.String()
}

func termBrief(t *Term) string {
	if t.op == "" {
		return t.lit
	}
	s := "(" + t.op
	for _, a := range t.args {
		if len(s) > 60 {
			s += " …"
			break
		}
		s += " " + termBrief(a)
	}
	return s + ")"
}
