package main

// Lock discipline recorder (C20): lock-order edges and guarded-field accesses,
// collected over every feasible path of the harnesses that enable it.

import (
	"fmt"
	"go/types"
	"sort"
	"strings"
	"sync"

	"golang.org/x/tools/go/ssa"
)

type guardSpec struct {
	mu     string
	fields map[string]bool
}

// guarded lists, per struct type, the mutex field and the fields it protects
// (taken from the "mu protects the above fields" comments in the sources).
var guarded = map[string]guardSpec{
	pikoMod + "/server/upstream.LoadBalancedManager": {"mu", map[string]bool{"localUpstreams": true}},
	pikoMod + "/server/cluster.State":                {"mu", map[string]bool{"nodes": true, "localEndpointSubscribers": true, "remoteEndpointSubscribers": true}},
	pikoMod + "/server/gossip.syncer":                {"mu", map[string]bool{"pendingNodes": true}},
	pikoMod + "/pkg/gossip.clusterState":             {"mu", map[string]bool{"nodes": true}},
	pikoMod + "/pkg/gossip.accrualFailureDetector":   {"mu", map[string]bool{"windows": true}},
	pikoMod + "/server/upstream.Server":              {"sessionsMu", map[string]bool{"sessions": true}},
}

type lockViolation struct{ label, detail string }

type locksetState struct {
	mu        sync.Mutex
	edges     map[string]map[string]string // held -> acquired -> example position
	unguarded map[string]string            // "T.f in func" -> position
	accesses  int64
	acquires  int64
}

func newLockset() *locksetState {
	return &locksetState{edges: map[string]map[string]string{}, unguarded: map[string]string{}}
}

func (l *locksetState) onAcquire(p *Path, mp *value, write bool) {
	l.mu.Lock()
	defer l.mu.Unlock()
	l.acquires++
	to := p.lockNames[mp]
	for h := range p.held {
		from := p.lockNames[h]
		if from == to && h == mp {
			continue
		}
		if l.edges[from] == nil {
			l.edges[from] = map[string]string{}
		}
		if _, ok := l.edges[from][to]; !ok {
			l.edges[from][to] = fmt.Sprintf("path decisions=%v", p.decisions)
		}
	}
}

func (l *locksetState) onFieldAddr(p *Path, fr *frame, instr *ssa.FieldAddr, base *value) {
	st := deref(instr.X.Type())
	named, ok := st.(*types.Named)
	if !ok {
		return
	}
	key := named.Obj().Pkg().Path() + "." + named.Obj().Name()
	spec, ok := guarded[key]
	if !ok {
		return
	}
	sut := named.Underlying().(*types.Struct)
	fname := sut.Field(instr.Field).Name()
	if !spec.fields[fname] {
		return
	}
	// skip harness code and constructors
	pos := p.eng.prog.Fset.Position(fr.fn.Pos())
	if strings.Contains(pos.Filename, "zz_verif_") {
		return
	}
	if n := fr.fn.Name(); strings.HasPrefix(n, "New") || strings.HasPrefix(n, "new") {
		return
	}
	muIdx := -1
	for i := 0; i < sut.NumFields(); i++ {
		if sut.Field(i).Name() == spec.mu {
			muIdx = i
		}
	}
	if muIdx < 0 {
		return
	}
	stv := (*base).(structure)
	held := p.held[&stv[muIdx]] != 0
	l.mu.Lock()
	l.accesses++
	if !held {
		k := fmt.Sprintf("%s.%s accessed without %s in %s", named.Obj().Name(), fname, spec.mu, fr.fn.String())
		if _, ok := l.unguarded[k]; !ok {
			l.unguarded[k] = fr.posOf(instr)
		}
	}
	l.mu.Unlock()
}

// callHeld: functions that, once the node is running (path tag
// "serialised"), must only be called with the named mutex held. This is the
// premise of the argument that concurrent connects/disconnects serialise at
// the registry mutex, so that registration and its publication are atomic.
var callHeld = map[string]string{
	"(*" + pikoMod + "/server/cluster.State).AddLocalEndpoint":    "upstream.LoadBalancedManager.mu",
	"(*" + pikoMod + "/server/cluster.State).RemoveLocalEndpoint": "upstream.LoadBalancedManager.mu",
	"(*" + pikoMod + "/server/gossip.syncer).onLocalEndpointUpdate": "upstream.LoadBalancedManager.mu",
}

func (l *locksetState) onCall(p *Path, caller *frame, fn *ssa.Function) {
	if !p.tags["serialised"] {
		return
	}
	need, ok := callHeld[fn.String()]
	if !ok {
		return
	}
	for m := range p.held {
		if p.lockNames[m] == need {
			return
		}
	}
	where := ""
	if caller != nil && caller.cur != nil {
		where = caller.posOf(caller.cur)
	}
	l.mu.Lock()
	k := fmt.Sprintf("%s called without %s held (registration and publication are no longer atomic)", fn.String(), need)
	if _, ok := l.unguarded[k]; !ok {
		l.unguarded[k] = where
	}
	l.mu.Unlock()
}

// report returns unguarded accesses and lock-order cycles.
func (l *locksetState) report() []lockViolation {
	var out []lockViolation
	var keys []string
	for k := range l.unguarded {
		keys = append(keys, k)
	}
	sort.Strings(keys)
	for _, k := range keys {
		out = append(out, lockViolation{"lockset", k + " at " + l.unguarded[k]})
	}
	// cycle detection (DFS)
	color := map[string]int{}
	var stack []string
	var cyc []string
	var dfs func(n string) bool
	dfs = func(n string) bool {
		color[n] = 1
		stack = append(stack, n)
		var succ []string
		for m := range l.edges[n] {
			succ = append(succ, m)
		}
		sort.Strings(succ)
		for _, m := range succ {
			if color[m] == 1 {
				cyc = append(append([]string{}, stack...), m)
				return true
			}
			if color[m] == 0 && dfs(m) {
				return true
			}
		}
		stack = stack[:len(stack)-1]
		color[n] = 2
		return false
	}
	var nodes []string
	for n := range l.edges {
		nodes = append(nodes, n)
	}
	sort.Strings(nodes)
	for _, n := range nodes {
		if color[n] == 0 && dfs(n) {
			out = append(out, lockViolation{"lock-order-cycle", strings.Join(cyc, " -> ")})
			break
		}
	}
	return out
}

func (l *locksetState) edgeList() []string {
	var out []string
	for a, m := range l.edges {
		for b := range m {
			out = append(out, a+" -> "+b)
		}
	}
	sort.Strings(out)
	return out
}
