package main

// Fallback portfolio: when the persistent incremental solver answers
// "unknown" (typically floating-point division or string/int conversions), the
// complete query is re-run one-shot (tactic-based bit-blasting) on z3 4.8.12,
// z3 5.1 and cvc5 concurrently; the first decisive answer wins.

import (
	"context"
	"fmt"
	"os"
	"os/exec"
	"strings"
	"sync/atomic"
	"time"
)

var fbStats struct {
	Tried, Unsat, Sat, Unknown int64
	Ns                         int64
}

func (p *Path) check(t *Term, negate bool) satResult {
	p.fbModel = nil
	r := p.sol.check(t, negate)
	if r != rUnknown || p.eng.noFallback {
		return r
	}
	return p.fallbackCheck(t, negate)
}

func (p *Path) scriptFor(t *Term, negate bool) string {
	var extra string
	if t != nil {
		ref := p.sol.ref(t)
		if negate {
			ref = "(not " + ref + ")"
		}
		extra = "(assert " + ref + ")\n"
	}
	var sb strings.Builder
	sb.WriteString("(set-option :produce-models true)\n(set-logic ALL)\n")
	for _, l := range p.sol.transcript {
		if strings.HasPrefix(l, "(push") || strings.HasPrefix(l, ";") {
			continue
		}
		sb.WriteString(l)
		sb.WriteByte('\n')
	}
	sb.WriteString(extra)
	sb.WriteString("(check-sat)\n")
	var names []string
	for _, in := range p.inputs {
		if in.term != nil {
			names = append(names, in.sym)
		}
	}
	if len(names) > 0 {
		sb.WriteString("(get-value (" + strings.Join(names, " ") + "))\n")
	}
	return sb.String()
}

type fbAnswer struct {
	res satResult
	out string
	bin string
}

func (p *Path) fallbackCheck(t *Term, negate bool) satResult {
	script := p.scriptFor(t, negate)
	t0 := time.Now()
	atomic.AddInt64(&fbStats.Tried, 1)
	f, err := os.CreateTemp(outDir, "fb-*.smt2")
	if err != nil {
		return rUnknown
	}
	f.WriteString(script)
	f.Close()
	defer os.Remove(f.Name())
	if d := os.Getenv("GOSYM_DUMP_UNKNOWN"); d != "" {
		os.MkdirAll(d, 0o755)
		os.WriteFile(fmt.Sprintf("%s/q-%d.smt2", d, time.Now().UnixNano()), []byte(script), 0o644)
	}
	hasStr := strings.Contains(script, "str.")
	timeout := p.eng.fallbackTimeoutS
	ctx, cancel := context.WithTimeout(context.Background(), time.Duration(timeout+5)*time.Second)
	defer cancel()
	type cand struct {
		bin  string
		args []string
	}
	cands := []cand{
		{"/usr/bin/z3", []string{fmt.Sprintf("-T:%d", timeout), f.Name()}},
		{"z3-new", []string{fmt.Sprintf("-T:%d", timeout), f.Name()}},
	}
	if !hasStr {
		cands = append(cands, cand{"cvc5", []string{"--lang=smt2", "--produce-models", "--fp-exp", fmt.Sprintf("--tlimit=%d", timeout*1000), f.Name()}})
	}
	ch := make(chan fbAnswer, len(cands))
	for _, c := range cands {
		go func(c cand) {
			out, _ := exec.CommandContext(ctx, c.bin, c.args...).CombinedOutput()
			txt := strings.TrimSpace(string(out))
			res := rUnknown
			if !strings.Contains(txt, "(error") || strings.HasPrefix(txt, "sat") || strings.HasPrefix(txt, "unsat") {
				first := strings.TrimSpace(strings.SplitN(txt, "\n", 2)[0])
				switch first {
				case "sat":
					res = rSat
				case "unsat":
					res = rUnsat
				}
			}
			ch <- fbAnswer{res, txt, c.bin}
		}(c)
	}
	final := rUnknown
	for range cands {
		a := <-ch
		if a.res == rUnknown {
			continue
		}
		final = a.res
		if a.res == rSat {
			// parse the model that follows the "sat" line
			if i := strings.Index(a.out, "\n"); i > 0 {
				sx := parseSexpr(a.out[i+1:])
				m := map[string]string{}
				for _, pair := range sx.list {
					if len(pair.list) == 2 {
						m[pair.list[0].String()] = pair.list[1].String()
					}
				}
				p.fbModel = m
			}
		}
		p.run.noteFallback(a.bin, a.res)
		break
	}
	cancel()
	atomic.AddInt64(&fbStats.Ns, int64(time.Since(t0)))
	switch final {
	case rSat:
		atomic.AddInt64(&fbStats.Sat, 1)
	case rUnsat:
		atomic.AddInt64(&fbStats.Unsat, 1)
	default:
		atomic.AddInt64(&fbStats.Unknown, 1)
	}
	return final
}

func (r *HarnessRun) noteFallback(bin string, res satResult) {
	r.mu.Lock()
	if r.fallbacks == nil {
		r.fallbacks = map[string]int64{}
	}
	r.fallbacks[bin+":"+res.String()]++
	r.mu.Unlock()
}
