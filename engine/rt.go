package main

// Engine-side implementation of the harness runtime package
// github.com/andydunstall/piko/zzverif (natively implemented in
// /verif/harness/zzverif/rt.go).

import (
	"fmt"
	"go/token"
	"go/types"
	"sync/atomic"
)

var rtIntrinsics map[string]intrinsicFn

func init() {
	rtIntrinsics = map[string]intrinsicFn{
		"Bool": func(fr *frame, a []value) value { return rtInput(fr, a[0], "bool", sortBool, types.Typ[types.Bool]) },
		"U64":  func(fr *frame, a []value) value { return rtInput(fr, a[0], "bv", sortBV(64), types.Typ[types.Uint64]) },
		"I64":  func(fr *frame, a []value) value { return rtInput(fr, a[0], "bv", sortBV(64), types.Typ[types.Int64]) },
		"U8":   func(fr *frame, a []value) value { return rtInput(fr, a[0], "bv", sortBV(8), types.Typ[types.Uint8]) },
		"F64":  func(fr *frame, a []value) value { return rtInput(fr, a[0], "f64", sortFP, types.Typ[types.Float64]) },
		"Str":  func(fr *frame, a []value) value { return rtInput(fr, a[0], "str", sortStr, types.Typ[types.String]) },
		"Int":  rtInt,
		"Choose": func(fr *frame, a []value) value {
			return fr.p.chooseNamed(needStr(fr, a[0]), int(asInt64(a[1])))
		},
		"Assume": func(fr *frame, a []value) value { fr.p.assume(a[0]); return nil },
		"Assert": func(fr *frame, a []value) value { fr.p.assertProp(needStr(fr, a[0]), a[1]); return nil },
		"Fail":   func(fr *frame, a []value) value { fr.p.assertProp(needStr(fr, a[0]), false); return nil },
		"Cover":  rtCover,
		"Class":  func(fr *frame, a []value) value { fr.p.classes[needStr(fr, a[0])] = a[1]; return nil },
		"Param":  rtParam,
		"Observe": func(fr *frame, a []value) value {
			fr.p.observes = append(fr.p.observes, needStr(fr, a[0])+"="+toString(a[1]))
			return nil
		},
		"Symbolic":    func(fr *frame, a []value) value { return fr.p.concrete == nil },
		"ExpectPanic": func(fr *frame, a []value) value { fr.p.expectPanic = true; return nil },
		"Tag":         func(fr *frame, a []value) value { fr.p.tags[needStr(fr, a[0])] = true; return nil },
		"And":         func(fr *frame, a []value) value { return andV(a[0], a[1]) },
		"Or":          func(fr *frame, a []value) value { return notV(andV(notV(a[0]), notV(a[1]))) },
		"Not":         func(fr *frame, a []value) value { return notV(a[0]) },
		"Implies":     func(fr *frame, a []value) value { return notV(andV(a[0], notV(a[1]))) },
		"IteU64":      rtIte,
		"IteInt":      rtIte,
		"IteStr":      rtIte,
		"Time":        rtTime,
		"Dec":         func(fr *frame, a []value) value { return decimalOf(a[0], types.Typ[types.Uint64], false) },
		"HeldLocks":   rtHeldLocks,
		"Yield":       func(fr *frame, a []value) value { fr.p.yield(); return nil },
		"WaitUntil":   rtWaitUntil,
		"LockLog":     func(fr *frame, a []value) value { return len(fr.p.lockLog) },
		"Catch":       rtCatch,
		"CtxTimeout":  rtCtxTimeout,
		"CtxCancelled": func(fr *frame, a []value) value { return ctxOf(a[0]).isCancelled() },
		"Concretize":  rtConcretize,
	}
}

func rtInput(fr *frame, name value, kind string, so Sort, t types.Type) value {
	rec := fr.p.newInput(needStr(fr, name), kind, so)
	if fr.p.concrete != nil {
		v := concDefault(rec, so)
		if so.k == kBV {
			return nativeInt(t, v.(uint64))
		}
		return v
	}
	return rec.term
}

// Int(name, lo, hi): a symbolic int constrained to [lo,hi].
func rtInt(fr *frame, a []value) value {
	lo, hi := asInt64(a[1]), asInt64(a[2])
	rec := fr.p.newInput(needStr(fr, a[0]), "bv", sortBV(64))
	if fr.p.concrete != nil {
		v := int64(concU64(rec.conc))
		if v < lo || v > hi {
			panic(pathAbort{"assume-false"})
		}
		return int(v)
	}
	fr.p.sol.assert(mkOp("bvsge", sortBool, rec.term, mkBV(64, uint64(lo))))
	fr.p.sol.assert(mkOp("bvsle", sortBool, rec.term, mkBV(64, uint64(hi))))
	return rec.term
}

// Time(name): a symbolic instant in (0, 2^62) ns.
func rtTime(fr *frame, a []value) value {
	rec := fr.p.newInput(needStr(fr, a[0]), "bv", sortBV(64))
	if fr.p.concrete != nil {
		return mkTime(int64(concU64(rec.conc)))
	}
	fr.p.sol.assert(mkOp("bvsgt", sortBool, rec.term, mkBV(64, 0)))
	fr.p.sol.assert(mkOp("bvslt", sortBool, rec.term, mkBV(64, 1<<62)))
	return mkTime(rec.term)
}

func rtCover(fr *frame, a []value) value {
	label := needStr(fr, a[0])
	r := fr.p.run
	r.mu.Lock()
	r.covers[label]++
	r.mu.Unlock()
	return nil
}

func rtParam(fr *frame, a []value) value {
	name := needStr(fr, a[0])
	if v, ok := fr.p.run.params[name]; ok {
		return v
	}
	return int(asInt64(a[1]))
}

func rtIte(fr *frame, a []value) value {
	if b, ok := a[0].(bool); ok {
		if b {
			return a[1]
		}
		return a[2]
	}
	t := fr.fn.Signature.Params().At(1).Type()
	return tIte(a[0].(*Term), lift(t, a[1]), lift(t, a[2]))
}

func rtHeldLocks(fr *frame, a []value) value { return len(fr.p.held) }

// Catch(f) runs f and reports whether it panicked (the panic is swallowed).
func rtCatch(fr *frame, a []value) (res value) {
	defer func() {
		if x := recover(); x != nil {
			if _, ok := x.(targetPanic); ok {
				res = true
				return
			}
			panic(x)
		}
	}()
	call(fr.p, fr, 0, a[0], nil)
	return false
}

// CtxTimeout(ctx) returns the duration given to the innermost
// context.WithTimeout in ctx's chain, or (0,false).
func rtCtxTimeout(fr *frame, a []value) value {
	for c := ctxOf(a[0]); c != nil; c = c.parent {
		if c.timeout != nil {
			return tuple{c.timeout, true}
		}
	}
	return tuple{int64(0), false}
}

// Concretize(x, lo, hi): case-split a symbolic int into a concrete one.
func rtConcretize(fr *frame, a []value) value {
	t, ok := a[0].(*Term)
	if !ok {
		return a[0]
	}
	lo, hi := int(asInt64(a[1])), int(asInt64(a[2]))
	var conds []*Term
	for i := lo; i <= hi; i++ {
		conds = append(conds, tEq(t, mkBV(64, uint64(int64(i)))))
	}
	k := fr.p.split(conds, "concretize")
	return lo + k
}

var _ = fmt.Sprint
var _ = token.ADD
var _ = atomic.AddInt64

// WaitUntil(cond): the current thread is not runnable until cond() holds; the
// scheduler evaluates cond (interpreted, side-effect free) when it looks for
// runnable threads.
func rtWaitUntil(fr *frame, a []value) value {
	p := fr.p
	for !p.truth(call(p, fr, 0, a[0], nil)) {
		if p.thr == nil {
			p.violation("deadlock", nil, "WaitUntil can never be satisfied: the path has no other thread")
			panic(pathAbort{"deadlock"})
		}
		t := p.thr.cur
		t.waitPred, t.waitFr = a[0], fr
		p.yield()
		t.waitPred = nil
	}
	return nil
}
