package main

// sbAppend appends bytes to a strings.Builder object (field 1 is buf []byte).
func sbAppend(b value, data []byte) {
	st := (*b.(*value)).(structure)
	buf, _ := st[1].([]value)
	for _, c := range data {
		buf = append(buf, c)
	}
	st[1] = buf
}
