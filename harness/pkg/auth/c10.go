//go:build verif

package auth

import (
	"errors"
	"time"

	v "github.com/andydunstall/piko/zzverif"
)

// Harness_C10_permit: a token listing endpoints may use exactly those (string
// equality), a token listing none may use any.
func Harness_C10_permit() {
	N := v.Param("N", 3)
	n := v.Choose("claims", N+1)
	t := &Token{}
	for i := 0; i < n; i++ {
		t.Endpoints = append(t.Endpoints, v.Str("claim"))
	}
	target := v.Str("target")
	got := t.EndpointPermitted(target)
	want := n == 0
	for _, e := range t.Endpoints {
		want = v.Or(want, e == target)
	}
	v.Assert("C10/permit/exactly-listed", got == want)
	if n == 0 {
		v.Cover("no-claims")
	} else {
		v.Cover("claims")
	}
}

// vVerifier is a key-specific verifier: it accepts exactly the tokens signed
// with "its" key (modelled as a token string prefix owned by that key).
type vVerifier struct {
	name   string
	calls  []string
	err    error
	expiry time.Time
}

func (f *vVerifier) Verify(token string) (*Token, error) {
	f.calls = append(f.calls, token)
	if f.err != nil {
		return nil, f.err
	}
	return &Token{Endpoints: []string{f.name}, Expiry: f.expiry}, nil
}

// Harness_C10_tenant: the tenant named by the request selects the verifier;
// no tenant or an unknown tenant is refused when tenants are configured; no
// other verifier is ever consulted; the token is stamped with that tenant.
func Harness_C10_tenant() {
	T := v.Param("T", 2)
	def := &vVerifier{name: "default"}
	if v.Choose("default-fails", 2) == 1 {
		def.err = ErrInvalidToken
	}
	var tenants map[string]Verifier
	var ids []string
	var vs []*vVerifier
	switch v.Choose("table", 3) {
	case 0: // nil table
	case 1: // empty table
		tenants = map[string]Verifier{}
	case 2:
		tenants = map[string]Verifier{}
		n := 1 + v.Choose("tenants", T)
		for i := 0; i < n; i++ {
			id := v.Str("tenant-id")
			v.Assume(id != "")
			for _, other := range ids {
				v.Assume(id != other)
			}
			f := &vVerifier{name: "t"}
			if v.Choose("tenant-token-expires", 2) == 1 {
				f.expiry = v.Time("tenant-token-expiry")
			}
			if v.Choose("tenant-fails", 2) == 1 {
				f.err = ErrExpiredToken
			}
			ids = append(ids, id)
			vs = append(vs, f)
			tenants[id] = f
		}
	}
	mv := NewMultiTenantVerifier(def, tenants)
	hdr := v.Str("tenant-header")
	tok := v.Str("token")
	got, err := mv.Verify(tok, hdr)

	// which verifier should have been consulted
	which := -2 // -2: none (refused), -1: default, i: tenant i
	if hdr == "" {
		if len(ids) == 0 {
			which = -1
		}
	} else {
		for i, id := range ids {
			if hdr == id {
				which = i
			}
		}
	}
	total := len(def.calls)
	for _, f := range vs {
		total += len(f.calls)
	}
	switch {
	case which == -2:
		v.Assert("C10/tenant/refused", got == nil && errors.Is(err, ErrUnknownTenant))
		v.Assert("C10/tenant/refused-consults-nobody", total == 0)
		v.Cover("refused")
	case which == -1:
		v.Assert("C10/tenant/default-only", len(def.calls) == 1 && total == 1 && def.calls[0] == tok)
		if def.err == nil {
			v.Assert("C10/tenant/default-token", err == nil && got != nil && got.TenantID == "")
		} else {
			v.Assert("C10/tenant/default-error", got == nil && err == def.err)
		}
		v.Cover("default")
	default:
		f := vs[which]
		v.Assert("C10/tenant/only-that-tenant", len(f.calls) == 1 && total == 1 && f.calls[0] == tok)
		if f.err == nil {
			v.Assert("C10/tenant/stamped", err == nil && got != nil && got.TenantID == hdr)
			// the rest of the verified token is kept: what it permits and when it
			// expires (the server closes the connection at that expiry, C16)
			v.Assert("C10/tenant/token-kept", len(got.Endpoints) == 1 && got.Endpoints[0] == "t" && got.Expiry.Equal(f.expiry))
		} else {
			v.Assert("C10/tenant/error-passed", got == nil && err == f.err)
		}
		v.Cover("tenant")
	}
}

// Harness_C10_claims_to_permission: from the endpoint list in a verified JWT
// to what the resulting token permits. The verifier must hand the claim list
// on unchanged (a list made only of blank or odd entries is still a list: it
// must not turn into "no list", which permits everything).
func Harness_C10_claims_to_permission() {
	v.Tag("c09-jwt")
	N := v.Param("N", 2)
	conf := &LoadedConfig{HMACSecretKey: []byte("secret")}
	vValidMethods, vValidMethodsSet, vAudience, vIssuer = nil, false, nil, nil
	vKeyReturned, vKeyErr, vKeyFuncCalls = nil, nil, 0
	vAlg = "HS256"
	vParseOutcome = 0
	vClaimExpiry = nil
	n := v.Choose("claims", N+1)
	vClaimEndpoints = nil
	for i := 0; i < n; i++ {
		// symbolic entries include the empty string
		vClaimEndpoints = append(vClaimEndpoints, v.Str("claim"))
	}
	tok, err := NewJWTVerifier(conf).Verify("t")
	v.Assert("C10/claims/verified", err == nil && tok != nil)
	v.Assert("C10/claims/list-handed-on-unchanged", len(tok.Endpoints) == n)
	for i := range tok.Endpoints {
		if i < n {
			v.Assert("C10/claims/list-handed-on-unchanged", tok.Endpoints[i] == vClaimEndpoints[i])
		}
	}
	target := v.Str("target")
	want := n == 0
	for _, e := range vClaimEndpoints {
		want = v.Or(want, e == target)
	}
	v.Assert("C10/claims/permits-exactly-the-listed", tok.EndpointPermitted(target) == want)
	if n > 0 {
		v.Cover("restricted-token")
	} else {
		v.Cover("unrestricted-token")
	}
}

var _ = errors.New
