//go:build verif

package auth

// Read access for harnesses in other packages.

func (v *MultiTenantVerifier) VerifDefault() Verifier            { return v.defaultVerifier }
func (v *MultiTenantVerifier) VerifTenants() map[string]Verifier { return v.tenantVerifiers }
func (v *JWTVerifier) VerifHMAC() []byte                         { return v.hmacSecretKey }
func (v *JWTVerifier) VerifMethods() []string                    { return v.methods }
