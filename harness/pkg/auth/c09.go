//go:build verif

package auth

import (
	"crypto/ecdsa"
	"crypto/rsa"
	"errors"
	"fmt"

	"github.com/golang-jwt/jwt/v5"

	v "github.com/andydunstall/piko/zzverif"
)

// golang-jwt is replaced by its documented contract (parser.go, v5):
// ParseWithClaims(token, claims, keyFunc, opts...) decodes the header, rejects
// the token when a list of valid methods was supplied (non-nil) and the
// token's alg is not in it, otherwise calls keyFunc with the token (Method.Alg
// = the header's alg), fails if keyFunc fails, verifies the signature with the
// returned key, validates exp/nbf/aud/iss per the options, and returns the
// token with Valid=true or an error (wrapping jwt.ErrTokenExpired when
// expired). Signature and claim validation themselves are the library's job
// and are an arbitrary outcome here.
//
//gosym:stub github.com/golang-jwt/jwt/v5.ParseWithClaims = vStubParseWithClaims
//gosym:stub github.com/golang-jwt/jwt/v5.WithValidMethods = vStubWithValidMethods
//gosym:stub github.com/golang-jwt/jwt/v5.WithAudience = vStubWithAudience
//gosym:stub github.com/golang-jwt/jwt/v5.WithIssuer = vStubWithIssuer

type vMethod struct{ alg string }

func (m *vMethod) Verify(signingString string, sig []byte, key any) error { return nil }
func (m *vMethod) Sign(signingString string, key any) ([]byte, error)     { return nil, nil }
func (m *vMethod) Alg() string                                            { return m.alg }

var (
	vValidMethods    []string
	vValidMethodsSet bool
	vAudience        []string
	vIssuer          []string
	vAlg             string
	vKeyReturned     any
	vKeyErr          error
	vKeyFuncCalls    int
	vParseOutcome    int // 0 valid, 1 expired, 2 bad signature / other, 3 parsed but Valid=false
	vClaimEndpoints  []string
	vClaimExpiry     *jwt.NumericDate
	vErrSignature    = errors.New("signature is invalid")
	vErrAlg          = errors.New("signing method is invalid")
)

func vStubWithValidMethods(methods []string) jwt.ParserOption {
	vValidMethods, vValidMethodsSet = methods, true
	return func(p *jwt.Parser) {}
}
func vStubWithAudience(aud ...string) jwt.ParserOption {
	vAudience = append(vAudience, aud...)
	return func(p *jwt.Parser) {}
}
func vStubWithIssuer(iss string) jwt.ParserOption {
	vIssuer = append(vIssuer, iss)
	return func(p *jwt.Parser) {}
}

func vStubParseWithClaims(tokenString string, claims jwt.Claims, keyFunc jwt.Keyfunc, options ...jwt.ParserOption) (*jwt.Token, error) {
	tok := &jwt.Token{Raw: tokenString, Method: &vMethod{alg: vAlg}, Claims: claims}
	if vValidMethods != nil {
		ok := false
		for _, m := range vValidMethods {
			ok = ok || m == vAlg
		}
		if !ok {
			return tok, fmt.Errorf("%w: alg not allowed", vErrAlg)
		}
	}
	vKeyFuncCalls++
	key, err := keyFunc(tok)
	vKeyReturned, vKeyErr = key, err
	if err != nil {
		return tok, fmt.Errorf("key: %w", err)
	}
	switch vParseOutcome {
	case 1:
		return tok, fmt.Errorf("%w: by 5m", jwt.ErrTokenExpired)
	case 2:
		return tok, vErrSignature
	case 3:
		return tok, nil
	}
	c := claims.(*JWTClaims)
	c.Piko.Endpoints = vClaimEndpoints
	c.ExpiresAt = vClaimExpiry
	tok.Valid = true
	return tok, nil
}

var vAlgs = []string{"HS256", "HS384", "HS512", "RS256", "RS384", "RS512", "ES256", "ES384", "ES512", "none", "PS256", "EdDSA", ""}

func vFamily(alg string) string {
	switch alg {
	case "HS256", "HS384", "HS512":
		return "HS"
	case "RS256", "RS384", "RS512":
		return "RS"
	case "ES256", "ES384", "ES512":
		return "ES"
	}
	return ""
}

// Harness_C09_jwt: every key configuration x every algorithm x every parser
// outcome.
func Harness_C09_jwt() {
	conf := &LoadedConfig{}
	hmacMode := v.Choose("hmac", 3) // 0: nil, 1: a secret, 2: empty but non-nil (what Config.Load yields when no secret is set)
	hasHMAC := hmacMode == 1
	hasRSA := v.Choose("rsa", 2) == 1
	hasEC := v.Choose("ecdsa", 2) == 1
	hasJWKS := v.Choose("jwks", 2) == 1
	secret := []byte("secret")
	rsaKey := &rsa.PublicKey{}
	ecKey := &ecdsa.PublicKey{}
	jwksKey := &rsa.PublicKey{E: 3}
	jwksCalls := 0
	if hasHMAC {
		conf.HMACSecretKey = secret
	}
	if hmacMode == 2 {
		conf.HMACSecretKey = []byte{}
		v.Cover("empty-hmac-secret")
	}
	if hasRSA {
		conf.RSAPublicKey = rsaKey
	}
	if hasEC {
		conf.ECDSAPublicKey = ecKey
	}
	if hasJWKS {
		conf.JWKS = &LoadedJWKS{KeyFunc: func(t *jwt.Token) (any, error) {
			jwksCalls++
			return jwksKey, nil
		}}
	}
	// server.go only builds a verifier when authentication is enabled
	v.Assume(hasHMAC || hasRSA || hasEC || hasJWKS)
	if v.Choose("audience", 2) == 1 {
		conf.Audience = v.Str("audience")
		v.Assume(conf.Audience != "")
	}
	if v.Choose("issuer", 2) == 1 {
		conf.Issuer = v.Str("issuer")
		v.Assume(conf.Issuer != "")
	}
	conf.DisableDisconnectOnExpiry = v.Choose("disable-disconnect", 2) == 1

	vValidMethods, vValidMethodsSet, vAudience, vIssuer = nil, false, nil, nil
	vKeyReturned, vKeyErr, vKeyFuncCalls = nil, nil, 0
	vAlg = vAlgs[v.Choose("alg", len(vAlgs))]
	vParseOutcome = v.Choose("parse-outcome", 4)
	vClaimEndpoints = []string{v.Str("claim-endpoint")}
	vClaimExpiry = nil
	if v.Choose("has-exp", 2) == 1 {
		vClaimExpiry = &jwt.NumericDate{Time: v.Time("exp")}
	}

	ver := NewJWTVerifier(conf)
	got, err := ver.Verify(v.Str("token"))

	// (a) the valid-method list is exactly the union of the configured static key families
	v.Assert("C09/jwt/valid-methods-passed", vValidMethodsSet)
	for _, a := range vAlgs {
		listed := false
		for _, m := range vValidMethods {
			listed = listed || m == a
		}
		fam := vFamily(a)
		want := (fam == "HS" && hasHMAC) || (fam == "RS" && hasRSA) || (fam == "ES" && hasEC)
		v.Assert("C09/jwt/valid-methods-are-configured-families", listed == want)
	}
	if !hasHMAC && !hasRSA && !hasEC {
		v.Assert("C09/jwt/no-static-key-no-method-list", vValidMethods == nil)
	}
	// (e) audience / issuer are enforced iff configured, with the configured value
	if conf.Audience != "" {
		v.Assert("C09/jwt/audience-enforced", len(vAudience) == 1 && vAudience[0] == conf.Audience)
	} else {
		v.Assert("C09/jwt/audience-enforced", len(vAudience) == 0)
	}
	if conf.Issuer != "" {
		v.Assert("C09/jwt/issuer-enforced", len(vIssuer) == 1 && vIssuer[0] == conf.Issuer)
	} else {
		v.Assert("C09/jwt/issuer-enforced", len(vIssuer) == 0)
	}
	// (b,c) key selection
	fam := vFamily(vAlg)
	if vKeyFuncCalls > 0 {
		if hasJWKS {
			v.Assert("C09/jwt/jwks-takes-precedence", jwksCalls == 1 && vKeyErr == nil && vKeyReturned == any(jwksKey))
			v.Cover("jwks-key")
		} else {
			switch fam {
			case "HS":
				b, isBytes := vKeyReturned.([]byte)
				v.Assert("C09/jwt/hs-gets-hmac-secret", vKeyErr == nil && isBytes && hasHMAC && len(b) == len(secret))
				v.Cover("hmac-key")
			case "RS":
				v.Assert("C09/jwt/rs-gets-rsa-key", vKeyErr == nil && hasRSA && vKeyReturned == any(rsaKey))
				v.Cover("rsa-key")
			case "ES":
				v.Assert("C09/jwt/es-gets-ecdsa-key", vKeyErr == nil && hasEC && vKeyReturned == any(ecKey))
				v.Cover("ecdsa-key")
			default:
				v.Assert("C09/jwt/unknown-alg-no-key", vKeyErr != nil && vKeyReturned == nil)
				v.Cover("unknown-alg")
			}
		}
	} else {
		v.Cover("rejected-by-method-list")
	}
	// (d,f) outcome mapping
	accepted := err == nil
	if accepted {
		v.Assert("C09/jwt/accepted-only-when-library-valid", vKeyFuncCalls == 1 && vKeyErr == nil && vParseOutcome == 0)
		v.Assert("C09/jwt/accepted-only-with-allowed-alg", hasJWKS || (fam == "HS" && hasHMAC) || (fam == "RS" && hasRSA) || (fam == "ES" && hasEC))
		v.Assert("C09/jwt/token-endpoints", got != nil && len(got.Endpoints) == 1 && got.Endpoints[0] == vClaimEndpoints[0])
		if vClaimExpiry != nil && !conf.DisableDisconnectOnExpiry {
			v.Assert("C09/jwt/token-expiry", got.Expiry.Equal(vClaimExpiry.Time))
		} else {
			v.Assert("C09/jwt/token-expiry", got.Expiry.IsZero())
		}
		v.Cover("accepted")
	} else {
		v.Assert("C09/jwt/rejected-returns-no-token", got == nil)
		expired := vKeyFuncCalls == 1 && vKeyErr == nil && vParseOutcome == 1
		if expired {
			v.Assert("C09/jwt/expired-maps-to-expired", errors.Is(err, ErrExpiredToken))
			v.Cover("expired")
		} else {
			v.Assert("C09/jwt/other-maps-to-invalid", errors.Is(err, ErrInvalidToken))
			v.Cover("invalid")
		}
	}
}
