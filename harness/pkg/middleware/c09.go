//go:build verif

package middleware

import (
	"errors"
	"fmt"
	"net/http"

	"github.com/andydunstall/piko/pkg/auth"
	"github.com/andydunstall/piko/pkg/log"
	v "github.com/andydunstall/piko/zzverif"
	"github.com/andydunstall/piko/zzverif/ginstub"
)

// vKeyVerifier stands for the configured verifier: it records the exact
// string it is asked to verify and answers as the harness chooses.
type vKeyVerifier struct {
	calls   []string
	outcome int
	token   *auth.Token
}

var vErrBackend = errors.New("backend failure")

func (k *vKeyVerifier) Verify(token string) (*auth.Token, error) {
	k.calls = append(k.calls, token)
	switch k.outcome {
	case 0:
		return k.token, nil
	case 1:
		return nil, auth.ErrInvalidToken
	case 2:
		return nil, auth.ErrExpiredToken
	case 3:
		return nil, fmt.Errorf("verify: %w", auth.ErrInvalidToken)
	case 4:
		return nil, auth.ErrUnknownTenant
	}
	return nil, vErrBackend
}

// Harness_C09_middleware: the auth middleware with arbitrary header values.
// The chain continues (Next) only when the verifier accepted exactly the
// string after "Bearer " of x-piko-authorization if that header is non-empty,
// else of Authorization; every other request is aborted with 401 (500 for an
// unknown verifier error) and never reaches a handler.
func Harness_C09_middleware() {
	kv := &vKeyVerifier{outcome: v.Choose("verifier-outcome", 6), token: &auth.Token{Endpoints: []string{"e"}}}
	m := NewAuth(auth.NewMultiTenantVerifier(kv, nil), log.NewNopLogger())
	h := http.Header{}
	xp, az := "", ""
	if v.Choose("has-x-piko-authorization", 2) == 1 {
		xp = v.Str("x-piko-authorization")
		h.Set("x-piko-authorization", xp)
	}
	if v.Choose("has-authorization", 2) == 1 {
		az = v.Str("authorization")
		h.Set("Authorization", az)
	}
	c := ginstub.NewContext(&http.Request{Method: "GET", Header: h}, ginstub.NewWriter())
	m.Verify(c)
	st := ginstub.Of(c)

	used := az
	if xp != "" {
		used = xp
	}
	v.Assert("C09/mw/continues-xor-aborts", (st.Nexts == 1) != st.Aborted && st.Nexts <= 1)
	v.Assert("C09/mw/verifier-consulted-at-most-once", len(kv.calls) <= 1)
	if len(kv.calls) == 1 {
		// the verifier saw exactly the bearer token of the header that takes precedence
		v.Assert("C09/mw/verifies-the-right-header", used == "Bearer "+kv.calls[0])
		v.Cover("verifier-consulted")
	} else {
		v.Assert("C09/mw/no-token-is-401", st.Aborted && st.Status == http.StatusUnauthorized)
		v.Cover("rejected-before-verifier")
	}
	if st.Nexts == 1 {
		v.Assert("C09/mw/next-only-when-accepted", len(kv.calls) == 1 && kv.outcome == 0)
		tok, ok := st.Keys[TokenContextKey]
		v.Assert("C09/mw/token-stored", ok && tok == any(kv.token))
		v.Cover("accepted")
	} else {
		v.Assert("C09/mw/token-not-stored", len(st.Keys) == 0)
		if len(kv.calls) == 1 {
			switch kv.outcome {
			case 0:
				v.Fail("C09/mw/accepted-token-must-continue")
			case 5:
				v.Assert("C09/mw/unknown-error-500", st.Status == http.StatusInternalServerError)
				v.Cover("unknown-error")
			default:
				v.Assert("C09/mw/rejected-401", st.Status == http.StatusUnauthorized)
				v.Cover("rejected-by-verifier")
			}
		}
	}
	if xp != "" && az != "" {
		v.Cover("both-headers")
	}
}
