//go:build verif

package websocket

import (
	"context"
	"errors"
	"net/http"

	"github.com/gorilla/websocket"

	v "github.com/andydunstall/piko/zzverif"
)

// The WebSocket handshake is replaced by a scripted outcome (gorilla contract:
// on a failed handshake DialContext returns ErrBadHandshake and the HTTP
// response; on a network failure no response).
//
//gosym:stub (*github.com/gorilla/websocket.Dialer).DialContext = vStubDialContext if ws-dial

var (
	vDialStatus int // 0: network error (no response), -1: success, otherwise the HTTP status of the refusal
	vDialHeader http.Header
	vDialURL    string
)

type vNoBody struct{}

func (vNoBody) Read(p []byte) (int, error) { return 0, errors.New("EOF") }
func (vNoBody) Close() error               { return nil }

func vStubDialContext(d *websocket.Dialer, ctx context.Context, urlStr string, h http.Header) (*websocket.Conn, *http.Response, error) {
	vDialURL, vDialHeader = urlStr, h
	switch vDialStatus {
	case -1:
		return &websocket.Conn{}, &http.Response{StatusCode: http.StatusSwitchingProtocols, Header: http.Header{}, Body: vNoBody{}}, nil
	case 0:
		return nil, nil, errors.New("dial tcp: connection refused")
	}
	return nil, &http.Response{StatusCode: vDialStatus, Header: http.Header{}, Body: vNoBody{}}, websocket.ErrBadHandshake
}

// Harness_C18_dial_retryable: how a failed connection attempt is classified.
// What a lost, restarting or overloaded node looks like to a listener - no
// answer at all, or a gateway error from whatever stands in front of the
// cluster (502, 503, 504) - must be retryable, otherwise the listener gives up
// instead of reconnecting to a surviving node; a refusal of the credentials
// (401) is final. Token and tenant are sent on every attempt.
func Harness_C18_dial_retryable() {
	v.Tag("ws-dial")
	statuses := []int{-1, 0, 401, 404, 500, 502, 503, 504}
	vDialStatus = statuses[v.Choose("outcome", len(statuses))]
	token := v.Str("token")
	tenant := v.Str("tenant")
	conn, err := Dial(context.Background(), "ws://node/piko/v1/upstream/e", WithToken(token), WithTenantID(tenant))
	var re *RetryableError
	retryable := err != nil && errors.As(err, &re)
	if token != "" {
		v.Assert("C18/dial/token-sent", vDialHeader.Get("Authorization") == "Bearer "+token)
	}
	if tenant != "" {
		v.Assert("C18/dial/tenant-sent", vDialHeader.Get("x-piko-tenant-id") == tenant)
	}
	switch vDialStatus {
	case -1:
		v.Assert("C18/dial/success", err == nil && conn != nil)
		v.Cover("connected")
	case 0:
		v.Assert("C18/dial/no-answer-is-retryable", conn == nil && retryable)
		v.Cover("no-answer")
	case 502, 503, 504:
		v.Assert("C18/dial/gateway-error-is-retryable", conn == nil && retryable)
		v.Cover("gateway-error")
	case 401:
		v.Assert("C18/dial/unauthorized-is-final", conn == nil && err != nil && !retryable)
		v.Cover("unauthorized")
	default:
		v.Assert("C18/dial/failure-reported", conn == nil && err != nil)
	}
}
