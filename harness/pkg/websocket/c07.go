//go:build verif

package websocket

import (
	"errors"
	"io"
	"net"

	gws "github.com/gorilla/websocket"

	v "github.com/andydunstall/piko/zzverif"
)

// gorilla/websocket is replaced by a scripted connection. Contract (from
// gorilla conn.go): NextReader returns (messageType, reader, nil) for the
// next data message or (0, nil, err) where err is a *CloseError once a close
// frame was received (also synthesised as 1006 on abrupt EOF) or another
// error; the reader returns the payload in arbitrary chunks and io.EOF at its
// end (possibly together with the last bytes); WriteMessage sends exactly one
// message.
//
//gosym:stub (*github.com/gorilla/websocket.Conn).NextReader = vStubNextReader
//gosym:stub (*github.com/gorilla/websocket.Conn).WriteMessage = vStubWriteMessage
//gosym:stub (*github.com/gorilla/websocket.Conn).Close = vStubClose

type vMsg struct {
	kind int // 0 binary, 1 text, 2 close error, 3 other error, 4 binary whose reader fails midway
	data []byte
}

type vWritten struct {
	mt   int
	data []byte
}

var (
	vScript   []vMsg
	vNext     int
	vWrites   []vWritten
	vWriteErr int // 0 ok, 1 close error, 2 other error
	vCloses   int
	vErrOther = errors.New("network error")
	vErrRead  = errors.New("read error")
)

type vMsgReader struct {
	data []byte
	off  int
	fail bool
}

func (r *vMsgReader) Read(p []byte) (int, error) {
	if r.off == len(r.data) {
		if r.fail {
			return 0, vErrRead
		}
		return 0, io.EOF
	}
	max := len(r.data) - r.off
	if len(p) < max {
		max = len(p)
	}
	n := 1 + v.Choose("chunk", max)
	copy(p, r.data[r.off:r.off+n])
	r.off += n
	if r.off == len(r.data) && !r.fail && v.Choose("eof-with-data", 2) == 1 {
		return n, io.EOF
	}
	return n, nil
}

func vStubNextReader(c *gws.Conn) (int, io.Reader, error) {
	if vNext >= len(vScript) {
		return 0, nil, &gws.CloseError{Code: gws.CloseAbnormalClosure, Text: io.ErrUnexpectedEOF.Error()}
	}
	m := vScript[vNext]
	vNext++
	switch m.kind {
	case 0:
		return gws.BinaryMessage, &vMsgReader{data: m.data}, nil
	case 1:
		return gws.TextMessage, &vMsgReader{data: m.data}, nil
	case 2:
		return 0, nil, &gws.CloseError{Code: gws.CloseNormalClosure}
	case 4:
		return gws.BinaryMessage, &vMsgReader{data: m.data, fail: true}, nil
	}
	return 0, nil, vErrOther
}

func vStubWriteMessage(c *gws.Conn, mt int, data []byte) error {
	switch vWriteErr {
	case 1:
		return &gws.CloseError{Code: gws.CloseGoingAway}
	case 2:
		return vErrOther
	}
	vWrites = append(vWrites, vWritten{mt: mt, data: append([]byte(nil), data...)})
	return nil
}

func vStubClose(c *gws.Conn) error {
	vCloses++
	return nil
}

// Harness_C07_read: an arbitrary script of incoming messages, read with
// arbitrary buffer sizes: the bytes delivered are exactly the concatenation
// of the binary payloads, each byte once and in order.
func Harness_C07_read() {
	M := v.Param("M", 2)
	L := v.Param("L", 2)
	B := v.Param("B", 2)
	R := v.Param("R", 4)
	vScript, vNext = nil, 0
	var expect []byte
	stopAt := -1 // index of the first message that ends the stream with an error
	m := 1 + v.Choose("msgs", M)
	for i := 0; i < m; i++ {
		kind := v.Choose("kind", 5)
		msg := vMsg{kind: kind}
		if kind == 0 || kind == 4 {
			n := v.Choose("len", L+1)
			for j := 0; j < n; j++ {
				msg.data = append(msg.data, v.U8("byte"))
			}
			if stopAt < 0 {
				expect = append(expect, msg.data...)
			}
		}
		if kind != 0 && stopAt < 0 {
			stopAt = i
		}
		vScript = append(vScript, msg)
	}
	c := New(&gws.Conn{})
	var got []byte
	sawErr := false
	for r := 0; r < R; r++ {
		buf := make([]byte, 1+v.Choose("buf", B))
		n, err := c.Read(buf)
		v.Assert("C07/read/n-in-range", n >= 0 && n <= len(buf))
		v.Assert("C07/read/never-zero-nil", n > 0 || err != nil)
		got = append(got, buf[:n]...)
		// everything delivered so far is a prefix of the expected stream
		v.Assert("C07/read/no-extra-bytes", len(got) <= len(expect))
		if len(got) <= len(expect) {
			for i := len(got) - n; i < len(got); i++ {
				v.Assert("C07/read/bytes-in-order", got[i] == expect[i])
			}
		}
		if err != nil {
			sawErr = true
			// errors only surface once every byte before them was delivered
			v.Assert("C07/read/no-byte-lost-before-error", len(got) == len(expect))
			kind := 2 // script exhausted = abnormal closure
			if stopAt >= 0 {
				kind = vScript[stopAt].kind
			}
			switch kind {
			case 2:
				v.Assert("C07/read/close-maps-to-closed", errors.Is(err, net.ErrClosed))
				v.Cover("close-frame")
			case 3:
				v.Assert("C07/read/other-error-verbatim", err == vErrOther)
				v.Cover("other-error")
			case 4:
				v.Assert("C07/read/reader-error-verbatim", err == vErrRead)
				v.Cover("reader-error")
			case 1:
				v.Assert("C07/read/non-binary-rejected", !errors.Is(err, net.ErrClosed) && err != vErrOther)
				v.Cover("text-message")
			}
			break
		}
	}
	if !sawErr && len(got) == len(expect) && len(expect) > 0 {
		v.Cover("all-delivered")
	}
	if len(expect) > 0 && len(got) > 0 {
		v.Cover("some-delivered")
	}
}

// Harness_C07_write: each Write sends exactly one binary message carrying
// exactly the caller's bytes.
func Harness_C07_write() {
	L := v.Param("L", 3)
	vWrites, vCloses = nil, 0
	vWriteErr = v.Choose("write-outcome", 3)
	c := New(&gws.Conn{})
	n := v.Choose("len", L+1)
	b := make([]byte, n)
	for i := range b {
		b[i] = v.U8("byte")
	}
	wn, err := c.Write(b)
	switch vWriteErr {
	case 0:
		v.Assert("C07/write/ok", err == nil && wn == n)
		v.Assert("C07/write/one-message", len(vWrites) == 1)
		v.Assert("C07/write/binary", vWrites[0].mt == gws.BinaryMessage)
		v.Assert("C07/write/payload-length", len(vWrites[0].data) == n)
		for i := range b {
			v.Assert("C07/write/payload", vWrites[0].data[i] == b[i])
		}
		v.Cover("write-ok")
	case 1:
		v.Assert("C07/write/close-maps-to-closed", wn == 0 && errors.Is(err, net.ErrClosed))
		v.Cover("write-closed")
	case 2:
		v.Assert("C07/write/error-verbatim", wn == 0 && err == vErrOther)
		v.Cover("write-error")
	}
	_ = c.Close()
	v.Assert("C07/close/closes-underlying", vCloses == 1)
}

// VerifCloses: how many times the underlying gorilla connection was closed.
func VerifCloses() int  { return vCloses }
func VerifResetCloses() { vCloses = 0 }
