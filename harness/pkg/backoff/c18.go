//go:build verif

package backoff

import (
	"time"

	v "github.com/andydunstall/piko/zzverif"
)

// Harness_C18_backoff: reconnect backoff arithmetic with an arbitrary jitter
// draw in [0,1): never zero or negative, at least the un-jittered value, at
// most 10% above the cap, and the retry budget is honoured.
func Harness_C18_backoff() {
	min := time.Duration(v.I64("min"))
	max := time.Duration(v.I64("max"))
	limit := time.Duration(1) << uint(v.Param("bits", 24))
	v.Assume(v.And(min > 0, v.And(min <= max, max < limit)))
	retries := v.Choose("retries", 3) // 0 = forever
	b := New(retries, min, max)
	steps := v.Param("steps", 3)
	for i := 0; i < steps; i++ {
		last := b.lastBackoff
		d, retry := b.Backoff()
		if retries != 0 && i > retries {
			v.Assert("C18/backoff/stops-after-retries", !retry && d == 0)
			v.Cover("gave-up")
			return
		}
		v.Assert("C18/backoff/retries", retry)
		v.Assert("C18/backoff/positive", d > 0)
		v.Assert("C18/backoff/at-least-min", d >= min)
		// never more than 10% above the cap
		v.Assert("C18/backoff/capped", float64(d) <= float64(max)*1.1+1)
		if last != 0 {
			v.Assert("C18/backoff/not-shrinking-below-cap", v.Or(d >= last, d >= max))
		}
	}
	v.Cover("backoff")
}
