//go:build verif

package gossip

import (
	"time"

	"github.com/andydunstall/piko/pkg/log"
	v "github.com/andydunstall/piko/zzverif"
)

// The datagram path is driven through the real packetListener.handlePacket and
// packetListener.delta; only the byte codec between sender and receiver is
// replaced in the engine by an identity pair (the codec is C13's subject). A
// native replay runs the real encodeDelta/decodeDelta round trip instead.
//
//gosym:stub github.com/andydunstall/piko/pkg/gossip.encodeDelta = vStubEncodeLateDelta if c11-listener
//gosym:stub github.com/andydunstall/piko/pkg/gossip.decodeDelta = vStubDecodeLateDelta if c11-listener

var (
	vLateDelta  delta
	vLateHeader deltaHeader
)

func vStubEncodeLateDelta(h deltaHeader, d delta, max int) ([]byte, error) {
	vLateHeader, vLateDelta = h, d
	return []byte{uint8(messageTypeDelta), supportedVersion}, nil
}

func vStubDecodeLateDelta(b []byte) (deltaHeader, delta, error) {
	return vLateHeader, vLateDelta, nil
}

// vMember describes one remote node of a membership harness.
type vMember struct {
	id          string
	left        bool
	unreachable bool
}

// vMembership builds an observer that knows N remote nodes with arbitrary
// flags. Membership invariant assumed (and re-asserted after every step):
// a remote node has a non-zero expiry iff it is left or unreachable; the
// local node is never unreachable and has no expiry.
func vMembership(N int, w Watcher) (*clusterState, []vMember) {
	s := vNewState("obs", w)
	ids := []string{"n0", "n1", "n2", "n3"}
	var ms []vMember
	for i := 0; i < N; i++ {
		if v.Choose(ids[i]+".known", 2) == 0 {
			continue
		}
		m := vMember{id: ids[i], left: v.Choose(ids[i]+".left", 2) == 1, unreachable: v.Choose(ids[i]+".unreachable", 2) == 1}
		n := &nodeState{NodeMetadata: NodeMetadata{ID: m.id, Addr: "addr-" + m.id, Version: v.U64(m.id + ".version"), Left: m.left, Unreachable: m.unreachable}, Entries: map[string]Entry{}}
		if m.left || m.unreachable {
			n.Expiry = v.Time(m.id + ".expiry")
		}
		if m.left {
			n.Entries[leftKey] = Entry{Key: leftKey, Version: n.Version, Internal: true}
			v.Assume(n.Version >= 1)
		}
		s.nodes[m.id] = n
		ms = append(ms, m)
	}
	return s, ms
}

func vAssertMembershipInv(tag string, s *clusterState) {
	local, ok := s.nodes[s.localID]
	v.Assert(tag+"/local-present", ok)
	v.Assert(tag+"/local-never-unreachable", !local.Unreachable)
	v.Assert(tag+"/local-no-expiry", local.Expiry.IsZero())
	for id, n := range s.nodes {
		if id == s.localID {
			continue
		}
		v.Assert(tag+"/expiry-iff-flag", n.Expiry.IsZero() == !(n.Left || n.Unreachable))
	}
}

// Harness_C11_leave: a delta carrying a node's left marker marks it left with
// an expiry nodeExpiry after "now" and announces it once; nothing short of
// expiry ever clears the flag.
func Harness_C11_leave() {
	rec := &vRecorder{}
	s, ms := vMembership(v.Param("N", 2), rec)
	// the leaver: a known node (any flags) or a node never heard of
	id := "n0"
	pre, known := s.nodes[id]
	var preVersion uint64
	wasLeft := false
	if known {
		preVersion = pre.Version
		wasLeft = pre.Left
	}
	ver := v.U64("left.version")
	t0 := time.Now()
	s.ApplyDelta(delta{deltaEntry{ID: id, Addr: "addr-" + id, Entries: []Entry{{Key: leftKey, Version: ver, Internal: true}}}})
	t1 := time.Now()
	n, still := s.nodes[id]
	v.Assert("C11/leave/node-kept", still)
	leaves := 0
	for _, e := range rec.Events {
		if e.Kind == "leave" && e.Node == id {
			leaves++
		}
	}
	if ver > preVersion {
		v.Assert("C11/leave/marked-left", n.Left)
		v.Assert("C11/leave/expiry-after-now", !n.Expiry.Before(t0.Add(nodeExpiry)) && !n.Expiry.After(t1.Add(nodeExpiry)))
		v.Assert("C11/leave/announced-once", leaves == 1)
		v.Cover("leave-applied")
	} else {
		v.Assert("C11/leave/old-version-ignored", n.Left == wasLeft && leaves == 0)
		v.Cover("leave-stale")
	}
	// afterwards no liveness evaluation or digest resurrects it
	s.failureDetector.(*VerifDetector).Levels[id] = v.F64("level")
	s.UpdateLiveness(v.F64("threshold"))
	s.ApplyDigest(digest{{ID: id, Addr: "addr-" + id, Version: v.U64("d.version"), Left: v.Bool("d.left")}})
	if ver > preVersion || wasLeft {
		v.Assert("C11/leave/stays-left", s.nodes[id].Left)
		for _, m := range s.LiveNodes() {
			v.Assert("C11/leave/never-live-again", m.ID != id)
		}
	}
	_ = ms
	vAssertMembershipInv("C11/leave", s)
}

// Harness_C11_digest_left: a node that has left and is unknown here is not
// (re-)learned from a digest; a known one is left untouched.
func Harness_C11_digest_left() {
	rec := &vRecorder{}
	s, _ := vMembership(v.Param("N", 2), rec)
	id := "n0"
	_, known := s.nodes[id]
	left := v.Bool("d.left")
	s.ApplyDigest(digest{{ID: id, Addr: "addr-x", Version: v.U64("d.version"), Left: left}})
	n, now := s.nodes[id]
	if known {
		v.Assert("C11/digest/known-untouched", now)
		v.Cover("digest-known")
	} else if left {
		v.Assert("C11/digest/left-not-learned", !now)
		v.Assert("C11/digest/left-no-join", len(rec.Events) == 0)
		v.Cover("digest-left-unknown")
	} else {
		v.Assert("C11/digest/learned", now)
		v.Assert("C11/digest/learned-fresh", n.Version == 0 && !n.Left && !n.Unreachable && n.Expiry.IsZero())
		v.Assert("C11/digest/join-announced", len(rec.Events) == 1 && rec.Events[0].Kind == "join")
		v.Cover("digest-learned")
	}
	vAssertMembershipInv("C11/digest", s)
}

// Harness_C11_liveness: one liveness evaluation with arbitrary suspicion
// levels and threshold.
func Harness_C11_liveness() {
	rec := &vRecorder{}
	s, ms := vMembership(v.Param("N", 2), rec)
	det := s.failureDetector.(*VerifDetector)
	levels := map[string]float64{}
	for _, m := range ms {
		levels[m.id] = v.F64(m.id + ".level")
		det.Levels[m.id] = levels[m.id]
	}
	det.Levels["obs"] = v.F64("local.level")
	th := v.F64("threshold")
	type pre struct {
		unreachable bool
		expiry      time.Time
	}
	before := map[string]pre{}
	for _, m := range ms {
		before[m.id] = pre{s.nodes[m.id].Unreachable, s.nodes[m.id].Expiry}
	}
	t0 := time.Now()
	s.UpdateLiveness(th)
	t1 := time.Now()
	for _, m := range ms {
		n := s.nodes[m.id]
		b := before[m.id]
		if m.left {
			v.Assert("C11/liveness/left-untouched", n.Unreachable == b.unreachable && n.Expiry == b.expiry)
			continue
		}
		if levels[m.id] > th {
			v.Assert("C11/liveness/marked-unreachable", n.Unreachable)
			if b.unreachable {
				v.Assert("C11/liveness/expiry-set-once", n.Expiry == b.expiry)
				v.Cover("still-unreachable")
			} else {
				v.Assert("C11/liveness/expiry-from-now", !n.Expiry.Before(t0.Add(nodeExpiry)) && !n.Expiry.After(t1.Add(nodeExpiry)))
				v.Cover("becomes-unreachable")
			}
		} else {
			v.Assert("C11/liveness/restored", !n.Unreachable)
			v.Assert("C11/liveness/expiry-cleared", n.Expiry.IsZero())
			if b.unreachable {
				v.Cover("recovers")
			}
		}
		// membership listings agree with the flags
		inLive, inUnreach := false, false
		for _, x := range s.LiveNodes() {
			inLive = inLive || x.ID == m.id
		}
		for _, x := range s.UnreachableNodes() {
			inUnreach = inUnreach || x.ID == m.id
		}
		v.Assert("C11/liveness/listing-live", inLive == !n.Unreachable)
		v.Assert("C11/liveness/listing-unreachable", inUnreach == n.Unreachable)
	}
	// notifications track the transitions
	for _, m := range ms {
		n := s.nodes[m.id]
		up, down := 0, 0
		for _, e := range rec.Events {
			if e.Node == m.id && e.Kind == "unreachable" {
				down++
			}
			if e.Node == m.id && e.Kind == "reachable" {
				up++
			}
		}
		wasU := before[m.id].unreachable
		v.Assert("C11/liveness/notify-unreachable", (down == 1) == (!wasU && n.Unreachable))
		v.Assert("C11/liveness/notify-reachable", (up == 1) == (wasU && !n.Unreachable))
		v.Assert("C11/liveness/notify-at-most-once", up+down <= 1)
	}
	vAssertMembershipInv("C11/liveness", s)
}

// Harness_C11_expire: the expiry sweep removes exactly the nodes whose
// non-zero expiry lies before t, tells the watcher and the failure detector,
// and never removes the local node.
func Harness_C11_expire() {
	rec := &vRecorder{}
	s, ms := vMembership(v.Param("N", 2), rec)
	if v.Choose("local.left", 2) == 1 {
		s.LeaveLocal()
	}
	t := v.Time("sweep")
	expired := map[string]bool{}
	for _, m := range ms {
		n := s.nodes[m.id]
		expired[m.id] = !n.Expiry.IsZero() && t.After(n.Expiry)
	}
	s.RemoveExpiredAt(t)
	det := s.failureDetector.(*VerifDetector)
	for _, m := range ms {
		_, still := s.nodes[m.id]
		v.Assert("C11/expire/exactly-expired", still == !expired[m.id])
		announced, forgotten := 0, 0
		for _, e := range rec.Events {
			if e.Kind == "expired" && e.Node == m.id {
				announced++
			}
		}
		for _, id := range det.Removed {
			if id == m.id {
				forgotten++
			}
		}
		if expired[m.id] {
			v.Assert("C11/expire/announced", announced == 1 && forgotten == 1)
			v.Cover("expired")
		} else {
			v.Assert("C11/expire/not-announced", announced == 0 && forgotten == 0)
			if m.left || m.unreachable {
				v.Cover("not-yet-expired")
			}
		}
	}
	_, local := s.nodes["obs"]
	v.Assert("C11/expire/local-kept", local)
	vAssertMembershipInv("C11/expire", s)
}

// Harness_C11_stays_forgotten: A has forgotten node X (expired). A peer B
// still holds X with arbitrary flags. B's real digest is applied by A. X may
// only be re-learned if B considers it live (neither left nor unreachable).
func Harness_C11_stays_forgotten() {
	v.Tag("c11-listener")
	a := vNewState("a", &vRecorder{})
	b := vNewState("b", nil)
	x := &nodeState{NodeMetadata: NodeMetadata{ID: "x", Addr: "addr-x", Version: v.U64("x.version")}, Entries: map[string]Entry{}}
	x.Left = v.Choose("x.left", 2) == 1
	x.Unreachable = v.Choose("x.unreachable", 2) == 1
	if x.Left || x.Unreachable {
		x.Expiry = v.Time("x.expiry")
	}
	b.nodes["x"] = x
	v.Class("F2", x.Unreachable && !x.Left)
	// B itself may have left gracefully (it keeps answering until it stops):
	// its own digest must not make A, which has forgotten it, learn it as live
	bLeft := v.Choose("b.left", 2) == 1
	if bLeft {
		b.LeaveLocal()
	}
	// a delta datagram that answers a digest A sent before it forgot X arrives
	// late: it must not bring X back (and could only bring back part of it)
	if v.Choose("late-delta", 2) == 1 {
		stale := digest{{ID: "x", Addr: "addr-x", Version: v.U64("stale.version")}}
		x.Entries["k"] = Entry{Key: "k", Value: "v", Version: x.Version}
		pkt, perr := encodeDelta(deltaHeader{NodeID: "b", Addr: "addr-b"}, b.Delta(stale, false), 1400)
		l := newPacketListener(&vPacketConn{}, a, a.failureDetector, 1400, newMetrics(), log.NewNopLogger())
		v.Assert("C11/forgotten/late-delta-handled", perr == nil && l.handlePacket(pkt) == nil)
		_, back := a.nodes["x"]
		v.Assert("C11/forgotten/late-delta-does-not-resurrect", !back)
		v.Cover("late-delta")
	}
	a.ApplyDigest(b.Digest())
	_, relearned := a.nodes["x"]
	_, knowsB := a.nodes["b"]
	if bLeft {
		v.Assert("C11/forgotten/leaver-not-relearned-from-its-own-digest", !knowsB)
		v.Cover("peer-has-left")
	} else {
		v.Assert("C11/forgotten/live-peer-learned-from-its-digest", knowsB)
	}
	if x.Left || x.Unreachable {
		v.Assert("C11/forgotten/not-relearned-from-peer-that-lost-it", !relearned)
		v.Cover("peer-holds-dead-node")
	} else {
		v.Assert("C11/forgotten/live-node-relearned", relearned)
		v.Cover("peer-holds-live-node")
	}
}
