//go:build verif

package gossip

import (
	v "github.com/andydunstall/piko/zzverif"
)

// vFold is the state a watcher reconstructs by replaying its notifications.
type vFold struct {
	known       map[string]bool
	left        map[string]bool
	unreachable map[string]bool
	keys        map[string]map[string]string // node -> key -> value
}

// vFoldOf derives the fold state that corresponds to the current view
// (definition of "visible": known remote nodes; per node the entries that
// are neither deleted nor internal).
func vFoldOf(s *clusterState) *vFold {
	f := &vFold{known: map[string]bool{}, left: map[string]bool{}, unreachable: map[string]bool{}, keys: map[string]map[string]string{}}
	for id, n := range s.nodes {
		if id == s.localID {
			continue
		}
		f.known[id] = true
		f.left[id] = n.Left
		f.unreachable[id] = n.Unreachable
		f.keys[id] = map[string]string{}
		for k, e := range n.Entries {
			if v.Concretize(vB2I(v.Or(e.Deleted, e.Internal)), 0, 1) == 0 {
				f.keys[id][k] = e.Value
			}
		}
	}
	return f
}

func vB2I(b bool) int { return v.IteInt(b, 1, 0) }

// apply folds one notification. Returns false on an ill-ordered notification
// (a key or flag event for a node that was never announced).
func (f *vFold) apply(e vEvent) bool {
	switch e.Kind {
	case "join":
		f.known[e.Node] = true
		if f.keys[e.Node] == nil {
			f.keys[e.Node] = map[string]string{}
		}
		return true
	case "expired":
		ok := f.known[e.Node]
		delete(f.known, e.Node)
		delete(f.left, e.Node)
		delete(f.unreachable, e.Node)
		delete(f.keys, e.Node)
		return ok
	}
	if !f.known[e.Node] {
		return false
	}
	switch e.Kind {
	case "leave":
		f.left[e.Node] = true
	case "unreachable":
		f.unreachable[e.Node] = true
	case "reachable":
		f.unreachable[e.Node] = false
	case "upsert":
		f.keys[e.Node][e.Key] = e.Value
	case "delete":
		delete(f.keys[e.Node], e.Key)
	}
	return true
}

// vAssertFoldEq asserts that two fold states are equal.
func vAssertFoldEq(tag string, got, want *vFold, ids []string, keys []string) {
	for _, id := range ids {
		v.Assert(tag+"/known", got.known[id] == want.known[id])
		if !want.known[id] {
			continue
		}
		v.Assert(tag+"/left-flag", got.left[id] == want.left[id])
		v.Assert(tag+"/unreachable-flag", got.unreachable[id] == want.unreachable[id])
		for _, k := range keys {
			gv, gp := got.keys[id][k]
			wv, wp := want.keys[id][k]
			v.Assert(tag+"/key-visible", gp == wp)
			if gp && wp {
				v.Assert(tag+"/key-value", gv == wv)
			}
		}
		v.Assert(tag+"/key-count", len(got.keys[id]) == len(want.keys[id]))
	}
}

// Harness_C14_delta: an arbitrary (honest, C02-shaped) exchange from the
// owner or from a relay; the notifications folded over the previous visible
// state give exactly the new visible state.
func Harness_C14_delta() {
	K := v.Param("K", 1)
	_, o, oc := vOwnerState("o", K, nil)
	sender := vNewState("r", nil)
	// (param "direct": only exchanges with the owner itself - used to bound
	// the K=2 thorough run, whose relay half did not finish in an hour)
	if v.Param("direct", 0) == 1 || v.Choose("sender-is-owner", 2) == 1 {
		sender.nodes["o"] = o
	} else {
		vViewOf("rv", sender, o, oc, K)
	}
	rec := &vRecorder{}
	obs := vNewState("obs", rec)
	known := v.Choose("known", 2) == 1
	if known {
		w := vViewOf("w", obs, o, oc, K)
		// the node may currently be considered unreachable (e.g. its leave
		// arrives through a relay afterwards)
		if !w.Left && v.Choose("w.unreachable", 2) == 1 {
			w.Unreachable = true
			w.Expiry = v.Time("w.expiry")
			v.Cover("view-unreachable")
		}
	}
	fold := vFoldOf(obs)
	dg := obs.Digest()
	d := sender.Delta(dg, !known)
	var got delta
	for _, de := range d {
		if de.ID != "o" {
			continue
		}
		j := v.Choose("prefix", len(de.Entries)+1)
		got = append(got, deltaEntry{ID: de.ID, Addr: de.Addr, Entries: de.Entries[:j]})
	}
	obs.ApplyDelta(got)
	vCheckFold("C14/delta", obs, rec, fold, []string{"o"}, vKeys(K))
	if !known {
		v.Cover("first-contact")
	}
}

// vCheckFold folds the recorded events over fold and compares with the view.
func vCheckFold(tag string, obs *clusterState, rec *vRecorder, fold *vFold, ids, keys []string) {
	joined := map[string]bool{}
	for id := range fold.known {
		joined[id] = true
	}
	for _, e := range rec.Events {
		if e.Kind == "join" {
			v.Assert(tag+"/join-once", !joined[e.Node])
			joined[e.Node] = true
		}
		ok := fold.apply(e)
		v.Assert(tag+"/announced-before-use", ok)
		if e.Kind == "delete" {
			v.Cover("delete-notified")
		}
	}
	vAssertFoldEq(tag, fold, vFoldOf(obs), ids, keys)
}

// Harness_C14_hostile: arbitrary entries over the key universe (any flags,
// any versions, unparsable compaction values) for a known or unknown node.
func Harness_C14_hostile() {
	K := v.Param("K", 1)
	M := v.Param("M", 2)
	_, o, oc := vOwnerState("o", K, nil)
	rec := &vRecorder{}
	obs := vNewState("obs", rec)
	if v.Choose("known", 2) == 1 {
		vViewOf("w", obs, o, oc, K)
	}
	fold := vFoldOf(obs)
	keys := vKeys(K)
	var es []Entry
	m := v.Choose("entries", M+1)
	for i := 0; i < m; i++ {
		e := Entry{Key: keys[v.Choose("key", len(keys))], Value: v.Str("value"), Version: v.U64("version"),
			Deleted: v.Bool("deleted")}
		// an owner marks exactly its two internal keys as internal (a key
		// never changes between internal and user-visible)
		e.Internal = e.Key == leftKey || e.Key == compactKey
		if e.Key == compactKey && v.Choose("numeric", 2) == 1 {
			e.Value = v.Dec(v.U64("cval"))
		}
		es = append(es, e)
	}
	obs.ApplyDelta(delta{deltaEntry{ID: "o", Addr: "addr-o", Entries: es}})
	vCheckFold("C14/hostile", obs, rec, fold, []string{"o"}, keys)
	v.Cover("hostile")
}

// Harness_C14_membership: digest discovery, liveness evaluation and expiry;
// the membership notifications track the flags.
func Harness_C14_membership() {
	rec := &vRecorder{}
	s, ms := vMembership(v.Param("N", 2), rec)
	ids := []string{"n0", "n1", "n2", "n3"}[:v.Param("N", 2)]
	fold := vFoldOf(s)
	switch v.Choose("op", 3) {
	case 0:
		var dg digest
		for _, id := range ids {
			dg = append(dg, digestEntry{ID: id, Addr: "addr-" + id, Version: v.U64("d.version"), Left: v.Bool("d.left")})
		}
		s.ApplyDigest(dg)
		v.Cover("digest")
	case 1:
		det := s.failureDetector.(*VerifDetector)
		for _, m := range ms {
			det.Levels[m.id] = v.F64(m.id + ".level")
		}
		s.UpdateLiveness(v.F64("threshold"))
		v.Cover("liveness")
	case 2:
		s.RemoveExpiredAt(v.Time("sweep"))
		v.Cover("expiry")
	}
	vCheckFold("C14/membership", s, rec, fold, ids, nil)
}
