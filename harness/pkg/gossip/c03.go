//go:build verif

package gossip

import (
	v "github.com/andydunstall/piko/zzverif"
)

// vOutstanding counts the sender's entries for "o" the view has not reached.
func vOutstanding(sender *nodeState, x uint64, K int) int {
	n := 0
	for _, k := range vKeys(K) {
		if e, p := sender.Entries[k]; p {
			n += v.Concretize(vB2I(e.Version > x), 0, 1)
		}
	}
	return n
}

// vProgress: one exchange with a sender that is ahead. If the packet carries
// at least the first outstanding entry, the observer's version strictly
// increases and the number of outstanding entries strictly decreases.
func vProgress(tag string, sender, obs *clusterState, o *nodeState, oc uint64, w *nodeState, K int) {
	x := w.Version
	sv := sender.nodes["o"]
	out0 := vOutstanding(sv, x, K)
	d := sender.Delta(obs.Digest(), false)
	var de *deltaEntry
	for i := range d {
		if d[i].ID == "o" {
			de = &d[i]
		}
	}
	ahead := sv.Version > x
	if de == nil {
		// nothing sent for the owner: only if the sender is not ahead
		v.Assert(tag+"/delta-nonempty-iff-ahead", !ahead)
		v.Assert(tag+"/rank-zero", out0 == 0)
		v.Cover("not-ahead")
		return
	}
	v.Assert(tag+"/delta-nonempty-iff-ahead", ahead)
	v.Assert(tag+"/delta-is-outstanding", len(de.Entries) == out0)
	for i := 1; i < len(de.Entries); i++ {
		v.Assert(tag+"/delta-version-order", de.Entries[i-1].Version < de.Entries[i].Version)
	}
	v.Assert(tag+"/delta-above-digest", de.Entries[0].Version > x)
	// the packet carries a whole-entry prefix with at least one entry
	j := 1 + v.Choose("prefix", len(de.Entries))
	last := de.Entries[j-1].Version
	obs.ApplyDelta(delta{deltaEntry{ID: de.ID, Addr: de.Addr, Entries: de.Entries[:j]}})
	w2 := obs.nodes["o"]
	v.Assert(tag+"/version-advances", w2.Version > x)
	v.Assert(tag+"/version-reaches-prefix-end", w2.Version == last)
	// rank: what the sender would send next (real Delta on the new digest)
	// is exactly the rest of what it sent now
	rest := 0
	for _, de2 := range sender.Delta(obs.Digest(), false) {
		if de2.ID == "o" {
			rest = len(de2.Entries)
		}
	}
	v.Assert(tag+"/rank-decreases", rest == len(de.Entries)-j)
	if j == len(de.Entries) {
		v.Assert(tag+"/full-delta-catches-up", w2.Version == sv.Version)
		v.Cover("caught-up-with-sender")
	} else {
		v.Cover("partial")
	}
	vAssertInv(tag, o, oc, w2, K)
}

// Harness_C03_progress_direct: observer behind the owner.
func Harness_C03_progress_direct() {
	K := v.Param("K", 1)
	os, o, oc := vOwnerState("o", K, nil)
	obs := vNewState("obs", nil)
	w := vViewOf("w", obs, o, oc, K)
	vProgress("C03/direct", os, obs, o, oc, w, K)
}

// Harness_C03_progress_relay: observer behind a relay.
func Harness_C03_progress_relay() {
	K := v.Param("K", 1)
	_, o, oc := vOwnerState("o", K, nil)
	relay := vNewState("r", nil)
	vViewOf("rv", relay, o, oc, K)
	obs := vNewState("obs", nil)
	w := vViewOf("w", obs, o, oc, K)
	vProgress("C03/relay", relay, obs, o, oc, w, K)
}

// Harness_C03_fixpoint: a consistent view that has reached the owner's
// version reports exactly the owner's state (same keys, values, deletion
// markers, versions, left flag) - including after compaction.
func Harness_C03_fixpoint() {
	K := v.Param("K", 1)
	os, o, oc := vOwnerState("o", K, nil)
	obs := vNewState("obs", nil)
	w := vViewOf("w", obs, o, oc, K)
	v.Assume(w.Version == o.Version)
	mine := os.LocalNode()
	theirs, ok := obs.Node("o")
	v.Assert("C03/fixpoint/known", ok)
	v.Assert("C03/fixpoint/version", theirs.Version == mine.Version)
	v.Assert("C03/fixpoint/left", theirs.Left == mine.Left)
	v.Assert("C03/fixpoint/count", len(theirs.Entries) == len(mine.Entries))
	if len(theirs.Entries) == len(mine.Entries) {
		for i := range mine.Entries {
			v.Assert("C03/fixpoint/entries", theirs.Entries[i] == mine.Entries[i])
		}
	}
	if _, compacted := o.Entries[compactKey]; compacted {
		v.Cover("fixpoint-after-compaction")
	}
	v.Cover("fixpoint")
}

// Harness_C03_discover: nodes are discovered through digests, and a join
// (full digest) transfers every node the joiner does not list.
func Harness_C03_discover() {
	a := vNewState("a", nil)
	b := vNewState("b", nil)
	// b knows a third node x (symbolic flags) that a has never heard of
	x := &nodeState{NodeMetadata: NodeMetadata{ID: "x", Addr: "addr-x", Version: v.U64("x.version")}, Entries: map[string]Entry{}}
	x.Entries["k0"] = Entry{Key: "k0", Value: v.Str("x.val"), Version: x.Version}
	x.Left = v.Choose("x.left", 2) == 1
	b.nodes["x"] = x

	a.ApplyDigest(b.Digest())
	_, knowsB := a.nodes["b"]
	v.Assert("C03/discover/sender-discovered", knowsB)
	nx, knowsX := a.nodes["x"]
	if x.Left {
		v.Assert("C03/discover/left-node-ignored", !knowsX)
		v.Cover("left-ignored")
	} else {
		v.Assert("C03/discover/third-party-discovered", knowsX)
		v.Assert("C03/discover/at-version-zero", nx.Version == 0)
		v.Assert("C03/discover/addr", nx.Addr == "addr-x")
		// it now appears in a's digest, so the next exchange asks for its state
		found := false
		for _, de := range a.Digest() {
			if de.ID == "x" {
				found = true
				v.Assert("C03/discover/in-next-digest", de.Version == 0)
			}
		}
		v.Assert("C03/discover/in-next-digest", found)
		v.Cover("third-party")
	}
	// join path: a full digest from a fresh node c yields every node b knows
	c := vNewState("c", nil)
	full := b.Delta(c.Digest(), true)
	ids := map[string]bool{}
	for _, de := range full {
		ids[de.ID] = true
	}
	v.Assert("C03/join/all-nodes-sent", ids["b"] && ids["x"] && len(full) == 2)
	c.ApplyDelta(full)
	cx, ok := c.nodes["x"]
	v.Assert("C03/join/third-party-learned", ok)
	v.Assert("C03/join/third-party-state", cx.Version == x.Version)
	v.Cover("join")
}
