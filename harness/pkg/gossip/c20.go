//go:build verif

package gossip

import (
	"sync"
	"time"

	v "github.com/andydunstall/piko/zzverif"
)

// Harness_C20_gossip_concurrent: the goroutines of the gossip layer - packet
// listener (reports to the failure detector, applies deltas and digests), the
// liveness, expiry and compaction tasks, local writers and status reads - run
// two at a time on the real cluster state and the real accrual failure
// detector, under every schedule of the engine's thread model (bounded
// pre-emptions): no deadlock, no panic, no unsynchronised access, the local
// node survives and its version never moves backwards.
func Harness_C20_gossip_concurrent() {
	d := newAccrualFailureDetector(time.Second, 3)
	s := newClusterState("local", "g:1", d, newMetrics(), &vRecorder{})
	s.UpsertLocal("a", "1")
	// a remote node already known
	s.ApplyDelta(delta{{ID: "r", Addr: "g:2", Entries: []Entry{{Key: "k", Value: "v", Version: 1}}}})
	d.ReportWithTimestamp("r", time.Unix(0, 1000))
	before := s.nodes["local"].Version

	op := func(tag string) {
		switch v.Choose(tag+".op", 8) {
		case 0: // packet from r: report + delta
			d.ReportWithTimestamp("r", time.Unix(0, 2000+int64(v.Choose(tag+".t", 2))*1000))
			s.ApplyKnownDelta(delta{{ID: "r", Addr: "g:2", Entries: []Entry{{Key: "k", Value: "w", Version: 2}}}})
		case 1: // digest naming an unknown node
			s.ApplyDigest(digest{{ID: "x", Addr: "g:3", Version: 4}})
		case 2: // liveness task
			s.UpdateLiveness(8)
		case 3: // expiry task
			s.RemoveExpiredAt(v.Time(tag + ".sweep"))
		case 4: // compaction task
			s.CompactLocal(0)
		case 5: // local writer
			if v.Choose(tag+".del", 2) == 1 {
				s.DeleteLocal("a")
			} else {
				s.UpsertLocal("a", "2")
			}
		case 6: // gossip round and status reads
			_ = s.Delta(s.Digest(), true)
			_ = s.Nodes()
			_, _ = s.Node("r")
			_ = s.LiveNodes()
			_ = d.SuspicionLevelAt("r", time.Unix(0, 5000))
		case 7: // leave
			s.LeaveLocal()
			_ = s.LocalDelta()
		}
	}
	var wg sync.WaitGroup
	for i, tag := range []string{"t0", "t1"} {
		_ = i
		tag := tag
		wg.Add(1)
		go func() {
			defer wg.Done()
			op(tag)
		}()
	}
	wg.Wait()
	v.Assert("C20/gossip/locks-released", v.HeldLocks() == 0)
	local, ok := s.nodes["local"]
	v.Assert("C20/gossip/local-node-survives", ok && !local.Unreachable)
	v.Assert("C20/gossip/local-version-monotone", local.Version >= before)
	v.Cover("quiescent")
}
