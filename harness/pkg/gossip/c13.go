//go:build verif

package gossip

import (
	"bytes"
	"errors"
	"io"
	"net"
	"time"

	"github.com/andydunstall/piko/pkg/log"
	v "github.com/andydunstall/piko/zzverif"
)

// ---------------------------------------------------------------------------
// Codec stub (tag "c13-codec"). The msgpack codec works by reflection and is
// outside the engine's reach; it is replaced by this contract:
//
//	Encode(x) appends size(x) >= 1 bytes to the writer and nothing else
//	Decode(&x) yields, at the decoder's discretion, an arbitrary value of x's
//	type, io.EOF at an item boundary, or an error; in round-trip mode it yields
//	the items the encoder was given, in order, as far as they fit the packet.
//
//gosym:stub github.com/andydunstall/piko/pkg/gossip.newEncoder = vStubNewEncoder if c13-codec
//gosym:stub (*github.com/andydunstall/piko/pkg/gossip.encoder).Encode = vStubEncode if c13-codec
//gosym:stub github.com/andydunstall/piko/pkg/gossip.newDecoder = vStubNewDecoder if c13-codec
//gosym:stub (*github.com/andydunstall/piko/pkg/gossip.decoder).Decode = vStubDecode if c13-codec
//gosym:stub net.ResolveUDPAddr = vStubResolveUDPAddr if c13-codec

type vItem struct {
	val  any
	size int
	end  int // offset of the byte after this item
}

var (
	vEncW     io.Writer
	vEncOff   int
	vEncItems []vItem
	vSizes    []int // sizes handed out to successive Encode calls

	vDecMode   int // 0: hostile (arbitrary outcomes), 1: replay vDecItems then EOF
	vDecItems  []any
	vDecBudget int
	vDecCalls  int
	vArbMax    = 1 // bound on nodes / entries of a fabricated stream delta or digest
)

func vCodecReset(prefixBytes int) {
	vEncW, vEncOff, vEncItems = nil, prefixBytes, nil
	vDecCalls = 0
}

func vStubNewEncoder(w io.Writer) *encoder {
	vEncW = w
	return &encoder{}
}

func vNextSize() int {
	if len(vSizes) == 0 {
		return 1
	}
	s := vSizes[0]
	vSizes = vSizes[1:]
	return s
}

func vStubEncode(e *encoder, x any) error {
	size := vNextSize()
	if _, err := vEncW.Write(make([]byte, size)); err != nil {
		return err
	}
	vEncOff += size
	vEncItems = append(vEncItems, vItem{val: x, size: size, end: vEncOff})
	return nil
}

func vStubNewDecoder(r io.Reader) *decoder { return &decoder{} }

var vErrDecode = errors.New("decode error")

func vArbEntry() Entry {
	return Entry{Key: v.Str("h.key"), Value: v.Str("h.value"), Version: v.U64("h.version"), Internal: v.Bool("h.internal"), Deleted: v.Bool("h.deleted")}
}

func vArbDelta() delta {
	var d delta
	n := v.Choose("h.nodes", vArbMax+1)
	for i := 0; i < n; i++ {
		de := deltaEntry{ID: v.Str("h.id"), Addr: v.Str("h.addr")}
		m := v.Choose("h.entries", vArbMax+1)
		for j := 0; j < m; j++ {
			de.Entries = append(de.Entries, vArbEntry())
		}
		d = append(d, de)
	}
	return d
}

func vStubDecode(d *decoder, x any) error {
	vDecCalls++
	if vDecMode == 1 {
		if len(vDecItems) == 0 {
			return io.EOF
		}
		it := vDecItems[0]
		vDecItems = vDecItems[1:]
		switch p := x.(type) {
		case *digestHeader:
			if h, ok := it.(*digestHeader); ok {
				*p = *h
				return nil
			}
		case *digestEntry:
			if h, ok := it.(*digestEntry); ok {
				*p = *h
				return nil
			}
		case *deltaHeader:
			if h, ok := it.(*deltaHeader); ok {
				*p = *h
				return nil
			}
		case *Entry:
			if h, ok := it.(Entry); ok {
				*p = h
				return nil
			}
		}
		return vErrDecode
	}
	// hostile stream: the budget bounds the number of items in the input
	if vDecCalls > vDecBudget {
		return io.EOF
	}
	switch v.Choose("dec.outcome", 3) {
	case 1:
		return io.EOF
	case 2:
		return vErrDecode
	}
	switch p := x.(type) {
	case *digestHeader:
		*p = digestHeader{NodeID: v.Str("h.node"), Addr: v.Str("h.addr"), Request: v.Bool("h.request")}
	case *digestEntry:
		*p = digestEntry{ID: v.Str("h.id"), Addr: v.Str("h.addr"), Version: v.U64("h.version"), Left: v.Bool("h.left")}
	case *deltaHeader:
		// hostile entry counts: negative, zero, small, huge
		n := []int{-1, 0, 1, 2, 1 << 40}[v.Choose("h.count", 5)]
		*p = deltaHeader{NodeID: v.Str("h.node"), Addr: v.Str("h.addr"), Entries: n}
	case *Entry:
		*p = vArbEntry()
	case *joinHeader:
		*p = joinHeader{NodeID: v.Str("h.node"), Addr: v.Str("h.addr")}
	case *leaveHeader:
		*p = leaveHeader{NodeID: v.Str("h.node"), Addr: v.Str("h.addr")}
	case *delta:
		*p = vArbDelta()
	case *digest:
		var dg digest
		n := v.Choose("h.digest", vArbMax+1)
		for i := 0; i < n; i++ {
			dg = append(dg, digestEntry{ID: v.Str("h.id"), Addr: v.Str("h.addr"), Version: v.U64("h.version"), Left: v.Bool("h.left")})
		}
		*p = dg
	default:
		return vErrDecode
	}
	return nil
}

func vStubResolveUDPAddr(network, address string) (*net.UDPAddr, error) {
	return &net.UDPAddr{}, nil
}

// vPacketConn records what is written to the network.
type vPacketConn struct {
	sent [][]byte
}

func (c *vPacketConn) ReadFrom(p []byte) (int, net.Addr, error) { return 0, nil, net.ErrClosed }
func (c *vPacketConn) WriteTo(p []byte, addr net.Addr) (int, error) {
	c.sent = append(c.sent, p)
	return len(p), nil
}
func (c *vPacketConn) Close() error                       { return nil }
func (c *vPacketConn) LocalAddr() net.Addr                { return nil }
func (c *vPacketConn) SetDeadline(t time.Time) error      { return nil }
func (c *vPacketConn) SetReadDeadline(t time.Time) error  { return nil }
func (c *vPacketConn) SetWriteDeadline(t time.Time) error { return nil }

// ---------------------------------------------------------------------------

// vCheckPrefix checks the packet b against the recorded items: it fits, ends
// on an item boundary, contains the header, and is the greedy maximal prefix.
// Returns the number of whole items in the packet.
func vCheckPrefix(tag string, b []byte, max int) int {
	v.Assert(tag+"/fits", len(b) <= max)
	n := 0
	end := 2
	for _, it := range vEncItems {
		if it.end <= len(b) {
			n++
			end = it.end
		}
	}
	v.Assert(tag+"/whole-items", len(b) == end)
	v.Assert(tag+"/header-present", n >= 1)
	if n < len(vEncItems) {
		// the next item was encoded but left out: it must not have fitted
		v.Assert(tag+"/greedy-maximal", vEncItems[n].end > max)
		v.Cover("truncated-packet")
	}
	return n
}

// Harness_C13_encode_delta: real encodeDelta with arbitrary item sizes and
// packet limit, then real decodeDelta on the emitted packet.
func Harness_C13_encode_delta() {
	v.Tag("c13-codec")
	N := v.Param("N", 2)
	M := v.Param("M", 2)
	S := v.Param("S", 3)
	var d delta
	vSizes = []int{1 + v.Choose("size.header", S)}
	total := 0
	nn := v.Choose("nodes", N+1)
	for i := 0; i < nn; i++ {
		de := deltaEntry{ID: []string{"a", "b", "c"}[i], Addr: "addr"}
		vSizes = append(vSizes, 1+v.Choose("size.node", S))
		m := v.Choose("entries", M+1)
		for j := 0; j < m; j++ {
			de.Entries = append(de.Entries, Entry{Key: "k", Value: v.Str("val"), Version: uint64(10*i + j + 1)})
			vSizes = append(vSizes, 1+v.Choose("size.entry", S))
			total++
		}
		d = append(d, de)
	}
	max := v.Int("maxPacketSize", 0, 40)
	vCodecReset(2)
	b, err := encodeDelta(deltaHeader{NodeID: "me", Addr: "addr"}, d, max)
	hdrEnd := vEncItems[0].end
	if err != nil {
		v.Assert("C13/delta/error-iff-header-too-big", hdrEnd > max)
		v.Cover("header-too-big")
		return
	}
	v.Assert("C13/delta/error-iff-header-too-big", hdrEnd <= max)
	v.Assert("C13/delta/message-type", b[0] == uint8(messageTypeDelta) && b[1] == supportedVersion)
	n := vCheckPrefix("C13/delta", b, max)

	// what was intended, flattened: header, then per node its header and entries
	var want []any
	for i := 0; i < n; i++ {
		want = append(want, vEncItems[i].val)
	}
	// decode the emitted packet with the real decodeDelta (faithful codec)
	vDecMode, vDecItems = 1, want
	hdr, got, derr := decodeDelta(b)
	v.Assert("C13/delta/decodes", derr == nil)
	v.Assert("C13/delta/decoded-header", hdr.NodeID == "me")
	// the decoded delta is a prefix of the intended one: nodes in order, each
	// with a prefix of its entries, only the last one possibly shortened
	v.Assert("C13/delta/decoded-nodes-prefix", len(got) <= len(d))
	sent := 0
	for i := range got {
		v.Assert("C13/delta/decoded-node", got[i].ID == d[i].ID && got[i].Addr == d[i].Addr)
		v.Assert("C13/delta/decoded-entries-prefix", len(got[i].Entries) <= len(d[i].Entries))
		if i < len(got)-1 {
			v.Assert("C13/delta/only-last-node-shortened", len(got[i].Entries) == len(d[i].Entries))
		}
		for j := range got[i].Entries {
			v.Assert("C13/delta/decoded-entry", got[i].Entries[j] == d[i].Entries[j])
			sent++
		}
	}
	v.Assert("C13/delta/item-count", 1+len(got)+sent == n)
	if sent > 0 {
		v.Cover("entries-sent")
	}
	if sent == total && len(got) == len(d) {
		v.Cover("complete-packet")
	}
}

// Harness_C13_encode_digest: real encodeDigest, the duplicate loop in
// Gossip.gossip, and real decodeDigest.
func Harness_C13_encode_digest() {
	v.Tag("c13-codec")
	N := v.Param("N", 3)
	S := v.Param("S", 3)
	var dg digest
	sizes := []int{1 + v.Choose("size.header", S)}
	nn := v.Choose("nodes", N+1)
	for i := 0; i < nn; i++ {
		dg = append(dg, digestEntry{ID: []string{"a", "b", "c", "d"}[i], Addr: "addr", Version: v.U64("version"), Left: v.Bool("left")})
		sizes = append(sizes, 1+v.Choose("size.entry", S))
	}
	max := v.Int("maxPacketSize", 0, 24)
	vSizes = append([]int(nil), sizes...)
	vCodecReset(2)
	b, err := encodeDigest(digestHeader{NodeID: "me", Addr: "addr", Request: true}, dg, max)
	hdrEnd := vEncItems[0].end
	if err != nil {
		v.Assert("C13/digest/error-iff-header-too-big", hdrEnd > max)
		return
	}
	v.Assert("C13/digest/error-iff-header-too-big", hdrEnd <= max)
	v.Assert("C13/digest/message-type", b[0] == uint8(messageTypeDigest) && b[1] == supportedVersion)
	n := vCheckPrefix("C13/digest", b, max)
	var want []any
	for i := 0; i < n; i++ {
		want = append(want, vEncItems[i].val)
	}
	vDecMode, vDecItems = 1, want
	hdr, got, derr := decodeDigest(b)
	v.Assert("C13/digest/decodes", derr == nil)
	v.Assert("C13/digest/decoded-header", hdr.NodeID == "me" && hdr.Request)
	v.Assert("C13/digest/decoded-count", len(got) == n-1)
	for i := range got {
		v.Assert("C13/digest/decoded-entry", got[i] == dg[i])
	}
	v.Cover("digest-encoded")

	// the inlined copy of the loop in Gossip.gossip emits the same packet
	// for the same digest (its Digest() is taken from a state holding the
	// same nodes in the same order; shuffling is the identity here)
	s := vNewState("me", nil)
	s.nodes = map[string]*nodeState{}
	s.nodes["me"] = &nodeState{NodeMetadata: NodeMetadata{ID: "me", Addr: "addr"}, Entries: map[string]Entry{}}
	for _, e := range dg {
		s.nodes[e.ID] = &nodeState{NodeMetadata: NodeMetadata{ID: e.ID, Addr: e.Addr, Version: e.Version, Left: e.Left}, Entries: map[string]Entry{}}
	}
	// digest now also lists "me" first: give it a size too
	vSizes = append([]int{sizes[0], 1 + v.Choose("size.self", S)}, sizes[1:]...)
	vCodecReset(2)
	pc := &vPacketConn{}
	g := &Gossip{state: s, config: &Config{MaxPacketSize: max}, packetConn: pc, metrics: newMetrics(), logger: log.NewNopLogger()}
	gerr := g.gossip(NodeMetadata{ID: "x", Addr: "x:1"})
	if gerr != nil {
		v.Assert("C13/gossip/error-iff-header-too-big", vEncItems[0].end > max)
		return
	}
	v.Assert("C13/gossip/one-packet", len(pc.sent) == 1)
	vCheckPrefix("C13/gossip", pc.sent[0], max)
	v.Cover("gossip-loop")
}

// Harness_C13_decode_hostile: the decode loops on an arbitrary item stream
// (arbitrary values, EOF or errors anywhere, hostile entry counts) terminate
// within the input length and never crash; whatever they return, applying it
// cannot change the receiver's own state.
func Harness_C13_decode_hostile() {
	v.Tag("c13-codec")
	vDecMode = 0
	vDecBudget = v.Param("L", 4)
	vCodecReset(2)
	s := vNewState("obs", &vRecorder{})
	s.UpsertLocal("a", "1")
	local := s.nodes["obs"]
	before := vSnapshot(local)
	beforeMeta := local.NodeMetadata
	det := s.failureDetector.(*VerifDetector)
	l := newPacketListener(&vPacketConn{}, s, det, 1400, newMetrics(), log.NewNopLogger())

	// arbitrary datagram: length 0..3 with arbitrary leading bytes
	n := v.Choose("len", 4)
	b := make([]byte, n)
	for i := range b {
		b[i] = v.U8("byte")
	}
	err := l.handlePacket(b)
	if n < 2 {
		v.Assert("C13/hostile/short-rejected", err != nil)
		v.Cover("short-packet")
	} else if b[1] != supportedVersion {
		v.Assert("C13/hostile/version-rejected", err != nil)
		v.Cover("bad-version")
	} else if b[0] != uint8(messageTypeDigest) && b[0] != uint8(messageTypeDelta) {
		v.Assert("C13/hostile/type-rejected", err != nil)
		v.Cover("bad-type")
	} else {
		v.Cover("decoded")
	}
	v.Assert("C13/hostile/bounded-decodes", vDecCalls <= vDecBudget+2)
	v.Assert("C13/hostile/local-metadata", s.nodes["obs"] == local && local.NodeMetadata == beforeMeta)
	v.Assert("C13/hostile/local-entries", len(local.Entries) == len(before))
	for k, e := range before {
		f, p := local.Entries[k]
		v.Assert("C13/hostile/local-entries", p)
		v.Assert("C13/hostile/local-entries", e == f)
	}
}

// vConn is a stream whose first bytes are arbitrary; the rest is consumed by
// the (stubbed) decoder.
type vConn struct {
	in      []byte
	written int
	closed  bool
	// deadline: a read/write deadline is in force; unguarded: reads or writes
	// issued without one (on a real connection a peer that stops sending would
	// block such a call forever)
	deadline  bool
	unguarded int
}

func (c *vConn) Read(p []byte) (int, error) {
	if !c.deadline {
		c.unguarded++
	}
	if len(c.in) == 0 {
		return 0, io.EOF
	}
	n := copy(p, c.in)
	c.in = c.in[n:]
	return n, nil
}
func (c *vConn) Write(p []byte) (int, error) {
	if !c.deadline {
		c.unguarded++
	}
	c.written += len(p)
	return len(p), nil
}
func (c *vConn) Close() error                       { c.closed = true; return nil }
func (c *vConn) LocalAddr() net.Addr                { return nil }
func (c *vConn) RemoteAddr() net.Addr               { return nil }
func (c *vConn) SetDeadline(t time.Time) error      { c.deadline = !t.IsZero(); return nil }
func (c *vConn) SetReadDeadline(t time.Time) error  { return nil }
func (c *vConn) SetWriteDeadline(t time.Time) error { return nil }

// Harness_C13_stream_hostile: the join/leave stream handlers on arbitrary
// input.
func Harness_C13_stream_hostile() {
	v.Tag("c13-codec")
	vDecMode = 0
	vDecBudget = v.Param("L", 3)
	vArbMax = v.Param("A", 1)
	vCodecReset(0)
	s := vNewState("obs", &vRecorder{})
	s.UpsertLocal("a", "1")
	local := s.nodes["obs"]
	before := vSnapshot(local)
	beforeMeta := local.NodeMetadata
	l := newStreamListener(nil, s, time.Second, newMetrics(), log.NewNopLogger())
	n := v.Choose("len", 3)
	c := &vConn{in: make([]byte, n)}
	for i := range c.in {
		c.in[i] = v.U8("byte")
	}
	first := c.in
	err := l.handleConn(c)
	v.Assert("C13/stream/conn-closed", c.closed)
	// no hang: every read and write of the handler is bounded by a deadline
	v.Assert("C13/stream/every-read-has-a-deadline", c.unguarded == 0)
	if n < 2 || first[1] != supportedVersion || (first[0] != uint8(messageTypeJoin) && first[0] != uint8(messageTypeLeave)) {
		v.Assert("C13/stream/malformed-rejected", err != nil)
		v.Assert("C13/stream/nothing-written", c.written == 0)
		v.Cover("stream-rejected")
	} else if err == nil {
		v.Cover("stream-handled")
	}
	v.Assert("C13/stream/local-metadata", s.nodes["obs"] == local && local.NodeMetadata == beforeMeta)
	v.Assert("C13/stream/local-entries", len(local.Entries) == len(before))
	for k, e := range before {
		f, p := local.Entries[k]
		v.Assert("C13/stream/local-entries", p)
		v.Assert("C13/stream/local-entries", e == f)
	}
}

var _ = bytes.NewBuffer
