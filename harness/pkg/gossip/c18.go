//go:build verif

package gossip

import (
	"errors"

	"github.com/andydunstall/piko/pkg/log"
	v "github.com/andydunstall/piko/zzverif"
)

// The TCP notification of one peer is replaced by a scripted outcome.
//
//gosym:stub (*github.com/andydunstall/piko/pkg/gossip.Gossip).leave = vStubLeave if c18-leave

var (
	vLeaveAddrs []string
	vErrLeave   = errors.New("dial tcp: connection refused")
)

func vStubLeave(g *Gossip, addr string) error {
	vLeaveAddrs = append(vLeaveAddrs, addr)
	if v.Choose("leave.fails", 2) == 1 {
		return vErrLeave
	}
	return nil
}

// Harness_C18_leave_loop: Gossip.Leave marks the local node left and notifies
// live peers: never itself, never left or unreachable peers; it keeps trying
// further peers after failures, stops once enough were notified, and reports
// an error only if a notification was attempted and none succeeded.
func Harness_C18_leave_loop() {
	v.Tag("c18-leave")
	vLeaveAddrs = nil
	s, ms := vMembership(v.Param("N", 3), nil)
	g := &Gossip{state: s, logger: log.NewNopLogger()}
	err := g.Leave()

	v.Assert("C18/leave/local-marked-left", s.nodes["obs"].Left)
	live := 0
	for _, m := range ms {
		if !m.left && !m.unreachable {
			live++
		}
	}
	attempted := map[string]bool{}
	for _, a := range vLeaveAddrs {
		v.Assert("C18/leave/each-peer-at-most-once", !attempted[a])
		attempted[a] = true
		v.Assert("C18/leave/never-self", a != "addr-obs")
	}
	for _, m := range ms {
		if m.left || m.unreachable {
			v.Assert("C18/leave/skips-left-and-unreachable", !attempted["addr-"+m.id])
		}
	}
	v.Assert("C18/leave/only-live-peers", len(vLeaveAddrs) <= live)
	// which attempts succeeded is recorded in the choose inputs; recompute:
	// the loop stops early only after more than 3 successes, so with <= 4
	// live peers every live peer is attempted unless 4 already succeeded
	if live <= 4 {
		v.Assert("C18/leave/tries-every-live-peer", len(vLeaveAddrs) == live)
	}
	if live == 0 {
		v.Assert("C18/leave/no-peers-no-error", err == nil)
		v.Cover("no-peers")
	}
	if err != nil {
		v.Assert("C18/leave/error-only-when-attempted", len(vLeaveAddrs) > 0 && errors.Is(err, vErrLeave))
		v.Cover("all-failed")
	} else if live > 0 {
		v.Cover("notified")
	}
}
