//go:build verif

package gossip

import (
	"errors"
	"net"

	"github.com/andydunstall/piko/pkg/log"
	v "github.com/andydunstall/piko/zzverif"
)

// The TCP notification of one peer is replaced by a scripted outcome.
//
//gosym:stub (*github.com/andydunstall/piko/pkg/gossip.Gossip).leave = vStubLeave if c18-leave

var (
	vLeaveAddrs []string
	vErrLeave   = errors.New("dial tcp: connection refused")
)

func vStubLeave(g *Gossip, addr string) error {
	vLeaveAddrs = append(vLeaveAddrs, addr)
	if v.Choose("leave.fails", 2) == 1 {
		return vErrLeave
	}
	return nil
}

// Harness_C18_leave_loop: Gossip.Leave marks the local node left and notifies
// live peers: never itself, never left or unreachable peers; it keeps trying
// further peers after failures, stops once enough were notified, and reports
// an error only if a notification was attempted and none succeeded.
func Harness_C18_leave_loop() {
	v.Tag("c18-leave")
	vLeaveAddrs = nil
	s, ms := vMembership(v.Param("N", 3), nil)
	g := &Gossip{state: s, logger: log.NewNopLogger()}
	err := g.Leave()

	v.Assert("C18/leave/local-marked-left", s.nodes["obs"].Left)
	live := 0
	for _, m := range ms {
		if !m.left && !m.unreachable {
			live++
		}
	}
	attempted := map[string]bool{}
	for _, a := range vLeaveAddrs {
		v.Assert("C18/leave/each-peer-at-most-once", !attempted[a])
		attempted[a] = true
		v.Assert("C18/leave/never-self", a != "addr-obs")
	}
	for _, m := range ms {
		if m.left || m.unreachable {
			v.Assert("C18/leave/skips-left-and-unreachable", !attempted["addr-"+m.id])
		}
	}
	v.Assert("C18/leave/only-live-peers", len(vLeaveAddrs) <= live)
	// which attempts succeeded is recorded in the choose inputs; recompute:
	// the loop stops early only after more than 3 successes, so with <= 4
	// live peers every live peer is attempted unless 4 already succeeded
	if live <= 4 {
		v.Assert("C18/leave/tries-every-live-peer", len(vLeaveAddrs) == live)
	}
	if live == 0 {
		v.Assert("C18/leave/no-peers-no-error", err == nil)
		v.Cover("no-peers")
	}
	if err != nil {
		v.Assert("C18/leave/error-only-when-attempted", len(vLeaveAddrs) > 0 && errors.Is(err, vErrLeave))
		v.Cover("all-failed")
	} else if live > 0 {
		v.Cover("notified")
	}
}

// The TCP dial of a peer returns a model stream (tag "c18-dial").
//
//gosym:stub (*net.Dialer).Dial = vStubGossipDial if c18-dial

var (
	vDialedConn *vConn
	vDialedAddr string
)

func vStubGossipDial(d *net.Dialer, network, address string) (net.Conn, error) {
	vDialedAddr = address
	if vDialedConn == nil {
		return nil, vErrLeave
	}
	return vDialedConn, nil
}

// Harness_C18_leave_message: what the real Gossip.leave puts on the stream to
// one peer. The peer may be behind by any amount (the last writes of the
// leaving node - such as the withdrawal of all its endpoints - may not have
// reached it), so the notification must carry the node's whole state ending
// with the left marker: a receiver that applies it knows everything the
// leaver published. The exchange is bounded by a deadline and waits for the
// acknowledgement.
func Harness_C18_leave_message() {
	v.Tag("c13-codec")
	v.Tag("c18-dial")
	K := v.Param("K", 2)
	s := vNewState("obs", nil)
	// an arbitrary history of local writes, then the leave
	for i := 0; i < K; i++ {
		key := []string{"k0", "k1"}[v.Choose("key", 2)]
		if v.Choose("op", 2) == 0 {
			s.UpsertLocal(key, v.Str("value"))
		} else {
			s.DeleteLocal(key)
		}
	}
	s.LeaveLocal()
	want := vSnapshot(s.nodes["obs"])

	vCodecReset(0)
	vDecMode, vDecBudget = 0, 1
	vDialedConn = &vConn{}
	g := &Gossip{state: s, dialer: &net.Dialer{}, metrics: newMetrics(), logger: log.NewNopLogger()}
	err := g.leave("peer:7000")
	v.Assert("C18/leave-message/dials-the-peer", vDialedAddr == "peer:7000")
	v.Assert("C18/leave-message/bounded-by-deadline", vDialedConn.unguarded == 0)
	v.Assert("C18/leave-message/connection-released", vDialedConn.closed)
	// what was encoded: the header naming the leaver, then its delta
	v.Assert("C18/leave-message/header-and-delta", len(vEncItems) == 2)
	if len(vEncItems) == 2 {
		hdr, isHdr := vEncItems[0].val.(*joinHeader)
		v.Assert("C18/leave-message/names-the-leaver", isHdr && hdr.NodeID == "obs")
		d, isDelta := vEncItems[1].val.(delta)
		v.Assert("C18/leave-message/one-node-delta", isDelta && len(d) == 1 && d[0].ID == "obs")
		if isDelta && len(d) == 1 {
			got := map[string]Entry{}
			var last uint64
			for _, e := range d[0].Entries {
				got[e.Key] = e
				v.Assert("C18/leave-message/version-order", e.Version > last)
				last = e.Version
			}
			// the whole published state, ending with the left marker
			v.Assert("C18/leave-message/whole-state", len(got) == len(want))
			for k, e := range want {
				g2, p := got[k]
				v.Assert("C18/leave-message/whole-state", p && g2 == e)
			}
			l, hasLeft := got[leftKey]
			v.Assert("C18/leave-message/carries-left-marker", hasLeft && l.Internal && l.Version == s.nodes["obs"].Version)
		}
	}
	if err == nil {
		v.Assert("C18/leave-message/waited-for-ack", vDecCalls >= 1)
		v.Cover("acknowledged")
	} else {
		v.Cover("no-ack")
	}
}

// Harness_C03_join_message: what the real Gossip.join exchanges with the node
// it joins: its whole own state and its whole digest go out (the other side
// answers the digest with everything the joiner lacks), the answer is applied,
// the exchange is bounded by a deadline and the connection is released.
func Harness_C03_join_message() {
	v.Tag("c13-codec")
	v.Tag("c18-dial")
	s, ms := vMembership(v.Param("N", 2), nil)
	s.UpsertLocal("mine", v.Str("value"))
	wantLocal := vSnapshot(s.nodes["obs"])

	vCodecReset(0)
	vDecMode, vDecBudget = 0, 2
	vArbMax = 1
	vDialedConn = &vConn{}
	g := &Gossip{state: s, dialer: &net.Dialer{}, metrics: newMetrics(), logger: log.NewNopLogger()}
	before := len(s.nodes)
	_, err := g.join("peer:7000")
	v.Assert("C03/join-message/dials-the-peer", vDialedAddr == "peer:7000")
	v.Assert("C03/join-message/bounded-by-deadline", vDialedConn.unguarded == 0)
	v.Assert("C03/join-message/connection-released", vDialedConn.closed)
	v.Assert("C03/join-message/header-delta-digest", len(vEncItems) == 3)
	if len(vEncItems) == 3 {
		hdr, isHdr := vEncItems[0].val.(*joinHeader)
		v.Assert("C03/join-message/names-the-joiner", isHdr && hdr.NodeID == "obs")
		d, isDelta := vEncItems[1].val.(delta)
		v.Assert("C03/join-message/own-state-whole", isDelta && len(d) == 1 && d[0].ID == "obs" && len(d[0].Entries) == len(wantLocal))
		if isDelta && len(d) == 1 {
			for _, e := range d[0].Entries {
				v.Assert("C03/join-message/own-state-whole", wantLocal[e.Key] == e)
			}
		}
		dg, isDigest := vEncItems[2].val.(digest)
		v.Assert("C03/join-message/digest-lists-every-known-node", isDigest && len(dg) == 1+len(ms))
	}
	if err == nil {
		v.Assert("C03/join-message/answer-read", vDecCalls >= 2)
		v.Cover("joined")
	} else {
		// nothing was applied from a failed exchange
		v.Assert("C03/join-message/failed-exchange-applies-nothing", len(s.nodes) == before)
		v.Cover("join-failed")
	}
	// the local node's own state is never altered by the answer
	for k, e := range wantLocal {
		v.Assert("C03/join-message/own-state-untouched", s.nodes["obs"].Entries[k] == e)
	}
}
