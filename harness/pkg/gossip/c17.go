//go:build verif

package gossip

import (
	"strconv"

	v "github.com/andydunstall/piko/zzverif"
)

// vOwnerState builds an owner clusterState whose local node is an arbitrary
// well-formed owner state over K user keys.
func vOwnerState(pfx string, K int, w Watcher) (*clusterState, *nodeState, uint64) {
	s := vNewState("o", w)
	n, c := vBuildNode(pfx, "o", K)
	v.Assume(vWfOwner(n, K, c))
	s.nodes["o"] = n
	return s, n, c
}

// Harness_C17_step: one arbitrary local write on an arbitrary well-formed
// owner state, checked against a last-write-wins reference.
func Harness_C17_step() {
	K := v.Param("K", 2)
	s, n, c := vOwnerState("o", K, nil)
	pre := vSnapshot(n)
	preVersion := n.Version
	preLeft := n.Left
	keys := vKeys(K)

	op := v.Choose("op", 4)
	switch op {
	case 0: // upsert
		key := vUserKeys[v.Choose("key", K)]
		val := v.Str("val")
		old, present := pre[key]
		s.UpsertLocal(key, val)
		got, ok := n.Entries[key]
		v.Assert("C17/upsert-present", ok)
		v.Assert("C17/upsert-visible-value", got.Value == val)
		v.Class("D2", present)
		v.Assert("C17/upsert-visible-live", !got.Deleted)
		noop := false
		if present {
			noop = v.And(!old.Deleted, old.Value == val)
		}
		v.Assert("C17/upsert-noop-keeps-version", v.Implies(noop, n.Version == preVersion))
		v.Assert("C17/upsert-noop-keeps-entry", v.Implies(noop, got == old))
		v.Assert("C17/upsert-fresh-version", v.Implies(!noop, v.And(n.Version == preVersion+1, got.Version == n.Version)))
		v.Assert("C17/upsert-key-field", got.Key == key)
		for _, k := range keys {
			if k != key {
				e, p := n.Entries[k]
				o, po := pre[k]
				v.Assert("C17/upsert-frame", p == po)
				if p {
					v.Assert("C17/upsert-frame", e == o)
				}
			}
		}
		if present {
			v.Cover("upsert-existing")
		} else {
			v.Cover("upsert-new")
		}
	case 1: // delete
		key := vUserKeys[v.Choose("key", K)]
		old, present := pre[key]
		s.DeleteLocal(key)
		got, ok := n.Entries[key]
		v.Assert("C17/delete-presence", ok == present)
		if present {
			v.Assert("C17/delete-hidden", got.Deleted)
			v.Assert("C17/delete-noop", v.Implies(old.Deleted, v.And(got == old, n.Version == preVersion)))
			v.Assert("C17/delete-fresh-version", v.Implies(!old.Deleted, v.And(n.Version == preVersion+1, got.Version == n.Version)))
			v.Assert("C17/delete-tombstone-shape", v.Implies(!old.Deleted, v.And(got.Value == "", got.Key == key)))
			v.Cover("delete-existing")
		} else {
			v.Assert("C17/delete-absent-noop", n.Version == preVersion)
			v.Cover("delete-absent")
		}
		for _, k := range keys {
			if k != key {
				e, p := n.Entries[k]
				o, po := pre[k]
				v.Assert("C17/delete-frame", p == po)
				if p {
					v.Assert("C17/delete-frame", e == o)
				}
			}
		}
	case 2: // leave
		s.LeaveLocal()
		v.Assert("C17/leave-flag", n.Left)
		got, ok := n.Entries[leftKey]
		v.Assert("C17/leave-entry", ok)
		if preLeft {
			v.Assert("C17/leave-noop", v.And(n.Version == preVersion, got == pre[leftKey]))
			v.Cover("leave-again")
		} else {
			v.Assert("C17/leave-fresh-version", v.And(n.Version == preVersion+1, got.Version == n.Version))
			v.Assert("C17/leave-entry-shape", v.And(got.Internal, !got.Deleted))
			v.Cover("leave-first")
		}
		for _, k := range keys {
			if k != leftKey {
				e, p := n.Entries[k]
				o, po := pre[k]
				v.Assert("C17/leave-frame", p == po)
				if p {
					v.Assert("C17/leave-frame", e == o)
				}
			}
		}
	case 3: // compact
		th := v.Int("threshold", 1, 6)
		deleted := 0
		for _, k := range keys {
			if e, p := pre[k]; p {
				deleted = v.IteInt(e.Deleted, deleted+1, deleted)
			}
		}
		s.CompactLocal(th)
		if n.Version == preVersion { // no compaction happened
			v.Assert("C17/compact-skip-only-below-threshold", deleted < th)
			for _, k := range keys {
				e, p := n.Entries[k]
				o, po := pre[k]
				v.Assert("C17/compact-skip-frame", p == po)
				if p {
					v.Assert("C17/compact-skip-frame", e == o)
				}
			}
			v.Cover("compact-skipped")
			break
		}
		v.Assert("C17/compact-only-at-threshold", deleted >= th)
		live := 0
		for _, k := range keys {
			o, po := pre[k]
			e, p := n.Entries[k]
			if k == compactKey {
				continue
			}
			if !po {
				v.Assert("C17/compact-no-new-keys", !p)
				continue
			}
			// tombstones are removed, live entries kept with the same value
			if p {
				v.Assert("C17/compact-keeps-only-live", !o.Deleted)
				v.Assert("C17/compact-keeps-value", v.And(e.Value == o.Value, v.And(e.Key == o.Key, v.And(e.Internal == o.Internal, !e.Deleted))))
				v.Assert("C17/compact-fresh-versions", v.And(e.Version > preVersion, e.Version < n.Version))
				live++
			} else {
				v.Assert("C17/compact-drops-only-tombstones", o.Deleted)
			}
		}
		m, ok := n.Entries[compactKey]
		v.Assert("C17/compact-marker", ok)
		v.Assert("C17/compact-marker-shape", v.And(m.Internal, v.And(!m.Deleted, m.Version == n.Version)))
		// the marker's value reads (as receivers read it: base 10) as the
		// last discarded version
		cv, perr := strconv.ParseUint(m.Value, 10, 64)
		v.Assert("C17/compact-marker-value", perr == nil)
		v.Assert("C17/compact-marker-value", cv == preVersion)
		v.Assert("C17/compact-consecutive", n.Version == preVersion+uint64(live)+1)
		// relative order of live keys preserved
		for i, ki := range keys {
			for _, kj := range keys[i+1:] {
				ei, pi := n.Entries[ki]
				ej, pj := n.Entries[kj]
				if pi && pj && ki != compactKey && kj != compactKey {
					v.Assert("C17/compact-order", (pre[ki].Version < pre[kj].Version) == (ei.Version < ej.Version))
				}
			}
		}
		c = preVersion
		v.Cover("compact-done")

		// an observer that synchronises afterwards ends up with the same state
		obs := vNewState("obs", nil)
		obs.ApplyDelta(s.LocalDelta())
		w, known := obs.nodes["o"]
		v.Assert("C17/sync-known", known)
		v.Assert("C17/sync-version", w.Version == n.Version)
		for _, k := range keys {
			e, p := n.Entries[k]
			f, q := w.Entries[k]
			v.Assert("C17/sync-keys", p == q)
			if p {
				v.Assert("C17/sync-entry", e == f)
			}
		}
	}
	v.Assert("C17/wf-preserved", vWfOwner(n, K, c))
}

// Harness_C17_hist: short histories from the constructor against the
// reference map (no invariant involved).
func Harness_C17_hist() {
	K := v.Param("K", 2)
	L := v.Param("L", 3)
	s := vNewState("o", nil)
	type ref struct {
		val     string
		deleted bool
		present bool
	}
	model := make([]ref, K)
	for step := 0; step < L; step++ {
		before := s.nodes["o"].Version
		switch v.Choose("op", 3) {
		case 0:
			i := v.Choose("key", K)
			val := v.Str("val")
			noop := false
			if model[i].present {
				noop = v.And(!model[i].deleted, model[i].val == val)
			}
			s.UpsertLocal(vUserKeys[i], val)
			model[i] = ref{val: val, present: true}
			v.Assert("C17/hist-version", s.nodes["o"].Version == v.IteU64(noop, before, before+1))
		case 1:
			i := v.Choose("key", K)
			eff := false
			if model[i].present {
				eff = !model[i].deleted
			}
			s.DeleteLocal(vUserKeys[i])
			if model[i].present {
				model[i] = ref{present: true, deleted: true}
			}
			v.Assert("C17/hist-version", s.nodes["o"].Version == v.IteU64(eff, before+1, before))
		case 2:
			s.CompactLocal(1)
			for i := range model {
				if model[i].present && model[i].deleted {
					model[i] = ref{}
				}
			}
			v.Cover("hist-compact")
		}
		// visible state equals the reference
		node := s.LocalNode()
		for i := 0; i < K; i++ {
			found := false
			for _, e := range node.Entries {
				if e.Key == vUserKeys[i] {
					found = true
					v.Assert("C17/hist-value", v.And(e.Deleted == model[i].deleted, v.Implies(!e.Deleted, e.Value == model[i].val)))
				}
			}
			if !found {
				v.Assert("C17/hist-absent", v.Or(!model[i].present, model[i].deleted))
			}
		}
	}
}
