//go:build verif

package gossip

import (
	"time"

	v "github.com/andydunstall/piko/zzverif"
)

// Exported builders for harnesses in other packages (C04, C18).

type VerifNodeState = nodeState
type VerifDelta = delta
type VerifDigest = digest

func (s *clusterState) VerifNodes() map[string]*nodeState { return s.nodes }
func (s *clusterState) VerifLocalID() string              { return s.localID }

const (
	VerifLeftKey    = leftKey
	VerifCompactKey = compactKey
)

// VerifSetUserKeys replaces the user-key universe and, optionally, the
// generator of symbolic values per key.
func VerifSetUserKeys(keys []string, valueFor func(pfx, key string) string) {
	vUserKeys = keys
	vValueFor = valueFor
}

// VerifSkipKey removes a key from every state built afterwards (bound reduction).
func VerifSkipKey(key string) { vSkipKeys[key] = true }

// VerifSetDeletable restricts which user keys the owner ever deletes.
func VerifSetDeletable(f func(key string) bool) { vDeletable = f }

func VerifKeys(K int) []string { return vKeys(K) }

func VerifNewState(localID string, w Watcher) *clusterState { return vNewState(localID, w) }

func VerifBuildOwner(pfx string, K int) (*clusterState, *nodeState, uint64) {
	return vOwnerState(pfx, K, nil)
}

func VerifViewOf(pfx string, s *clusterState, o *nodeState, oc uint64, K int) *nodeState {
	return vViewOf(pfx, s, o, oc, K)
}

func VerifAssertInv(tag string, o *nodeState, oc uint64, w *nodeState, K int) {
	vAssertInv(tag, o, oc, w, K)
}

// VerifDeliver performs one exchange for owner "o": the observer's real
// digest, the sender's real Delta, an arbitrary whole-entry prefix, the
// observer's real ApplyDelta. full=true uses the join form (nodes missing from
// the digest are included).
func VerifDeliver(sender, obs *clusterState, full bool) {
	d := sender.Delta(obs.Digest(), full)
	var got delta
	for _, de := range d {
		if de.ID != "o" {
			continue
		}
		j := v.Choose("prefix", len(de.Entries)+1)
		got = append(got, deltaEntry{ID: de.ID, Addr: de.Addr, Entries: de.Entries[:j]})
	}
	obs.ApplyDelta(got)
}

// VerifDigestOf returns the real digest of s restricted to node id.
func VerifDigestOf(s *clusterState, id string) digest {
	var out digest
	for _, e := range s.Digest() {
		if e.ID == id {
			out = append(out, e)
		}
	}
	return out
}

func VerifMakeDelta(id, addr string, es []Entry) delta {
	return delta{deltaEntry{ID: id, Addr: addr, Entries: es}}
}

func VerifMakeDigest(id, addr string, version uint64, left bool) digest {
	return digest{digestEntry{ID: id, Addr: addr, Version: version, Left: left}}
}

type VerifAccrual = accrualFailureDetector

func VerifNewDetector(bootstrap time.Duration, sampleSize int) *accrualFailureDetector {
	return newAccrualFailureDetector(bootstrap, sampleSize)
}

func (s *clusterState) VerifApplyDigest(d digest)       { s.ApplyDigest(d) }
func (s *clusterState) VerifApplyDelta(d delta)         { s.ApplyDelta(d) }
func (s *clusterState) VerifLocalDelta() delta          { return s.LocalDelta() }
func (s *clusterState) VerifUpdateLiveness(th float64)  { s.UpdateLiveness(th) }
func (s *clusterState) VerifDetector() *VerifDetector   { return s.failureDetector.(*VerifDetector) }
func (s *clusterState) VerifLeaveLocal()                { s.LeaveLocal() }
func (s *clusterState) VerifCompactLocal(threshold int) { s.CompactLocal(threshold) }
