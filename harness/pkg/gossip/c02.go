//go:build verif

package gossip

import (
	v "github.com/andydunstall/piko/zzverif"
)

// vViewOf installs in state s an arbitrary view of owner "o" that satisfies
// the observer invariant with respect to the owner state (o, oc).
func vViewOf(pfx string, s *clusterState, o *nodeState, oc uint64, K int) *nodeState {
	w, _ := vBuildNode(pfx, "o", K)
	w.Addr = o.Addr
	if _, hasLeft := w.Entries[leftKey]; !hasLeft && o.Left {
		// the flag may be set while the marker entry is transiently absent
		w.Left = v.Choose(pfx+".leftflag", 2) == 1
	}
	v.Assume(vInv(o, oc, w, K))
	s.nodes["o"] = w
	return w
}

// Harness_C02_owner_step: the owner performs one arbitrary local write while
// some observer holds an arbitrary consistent view; the view stays consistent.
func Harness_C02_owner_step() {
	K := v.Param("K", 1)
	os, o, oc := vOwnerState("o", K, nil)
	obs := vNewState("obs", nil)
	w := vViewOf("w", obs, o, oc, K)
	switch v.Choose("op", 4) {
	case 0:
		os.UpsertLocal(vUserKeys[v.Choose("key", K)], v.Str("val"))
		v.Cover("owner-upsert")
	case 1:
		os.DeleteLocal(vUserKeys[v.Choose("key", K)])
		v.Cover("owner-delete")
	case 2:
		os.LeaveLocal()
		v.Cover("owner-leave")
	case 3:
		pre := o.Version
		os.CompactLocal(v.Int("threshold", 1, 4))
		if o.Version != pre {
			oc = pre
			v.Cover("owner-compact")
		}
	}
	vAssertInv("C02/owner", o, oc, w, K)
}

// vExchange runs one delta exchange: the observer's digest entry for the
// owner carries version x0 (<= the observer's version; smaller = a delayed or
// duplicated packet), the sender (owner itself or a relay holding a consistent
// view) builds the delta with the real Delta(), a whole-entry prefix of it is
// delivered (packet truncation), possibly twice, and the observer applies it
// with the real ApplyDelta().
func vExchange(tag string, sender *clusterState, obs *clusterState, o *nodeState, oc uint64, w *nodeState, K int, stale bool) {
	x := w.Version
	before := vSnapshot(w)
	localBefore := vSnapshot(obs.nodes["obs"])
	localVersion := obs.nodes["obs"].Version
	sent := vSnapshot(sender.nodes["o"])

	dg := obs.Digest()
	if stale {
		x0 := v.U64("x0")
		v.Assume(x0 <= x)
		for i := range dg {
			if dg[i].ID == "o" {
				dg[i].Version = x0
			}
		}
	}
	d := sender.Delta(dg, false)
	var got delta
	for _, de := range d {
		if de.ID != "o" {
			got = append(got, de)
			continue
		}
		j := v.Choose("prefix", len(de.Entries)+1)
		if j < len(de.Entries) {
			v.Cover("truncated")
		}
		got = append(got, deltaEntry{ID: de.ID, Addr: de.Addr, Entries: de.Entries[:j]})
	}
	obs.ApplyDelta(got)
	if v.Choose("dup", 2) == 1 {
		obs.ApplyDelta(got)
		v.Cover("duplicated")
	}

	w2, known := obs.nodes["o"]
	v.Assert(tag+"/still-known", known)
	v.Assert(tag+"/version-monotone", w2.Version >= x)
	vAssertInv(tag, o, oc, w2, K)
	// no fabrication: every entry now held was held before or was sent
	for _, k := range vKeys(K) {
		a, p := w2.Entries[k]
		if !p {
			continue
		}
		b, pb := before[k]
		s, ps := sent[k]
		switch {
		case pb && ps:
			v.Assert(tag+"/no-fabrication", v.Or(a == b, a == s))
		case pb:
			v.Assert(tag+"/no-fabrication", a == b)
		case ps:
			v.Assert(tag+"/no-fabrication", a == s)
		default:
			v.Fail(tag + "/no-fabrication")
		}
	}
	// the observer's own published state is untouched
	v.Assert(tag+"/local-version-untouched", obs.nodes["obs"].Version == localVersion)
	for k, e := range localBefore {
		f, p := obs.nodes["obs"].Entries[k]
		v.Assert(tag+"/local-untouched", p)
		v.Assert(tag+"/local-untouched", e == f)
	}
	v.Assert(tag+"/local-untouched", len(obs.nodes["obs"].Entries) == len(localBefore))
	if _, hasMarker := w2.Entries[compactKey]; hasMarker {
		v.Cover("marker-in-view")
	}
}

// Harness_C02_direct_step: observer <- owner.
func Harness_C02_direct_step() {
	K := v.Param("K", 1)
	os, o, oc := vOwnerState("o", K, nil)
	obs := vNewState("obs", nil)
	obs.UpsertLocal("mine", "1")
	w := vViewOf("w", obs, o, oc, K)
	vExchange("C02/direct", os, obs, o, oc, w, K, v.Param("stale", 0) == 1)
}

// Harness_C02_relay_step: observer <- relay, where the relay holds its own
// consistent (possibly older, possibly newer) view of the owner, including an
// older compaction marker or entries that the owner has since compacted away.
func Harness_C02_relay_step() {
	K := v.Param("K", 1)
	_, o, oc := vOwnerState("o", K, nil)
	relay := vNewState("r", nil)
	vViewOf("rv", relay, o, oc, K)
	obs := vNewState("obs", nil)
	obs.UpsertLocal("mine", "1")
	w := vViewOf("w", obs, o, oc, K)
	vExchange("C02/relay", relay, obs, o, oc, w, K, v.Param("stale", 0) == 1)
}

// Harness_C02_first_contact: the observer has never heard of the owner (or
// only knows it at version 0 from a digest) and receives its first delta.
func Harness_C02_first_contact() {
	K := v.Param("K", 1)
	os, o, oc := vOwnerState("o", K, nil)
	rec := &vRecorder{}
	obs := vNewState("obs", rec)
	if v.Choose("discovered", 2) == 1 {
		obs.ApplyDigest(os.Digest())
		if !o.Left {
			v.Assert("C02/first/discovered", obs.nodes["o"] != nil)
		}
		v.Cover("discovered-by-digest")
	}
	d := os.Delta(obs.Digest(), true)
	var got delta
	for _, de := range d {
		j := v.Choose("prefix", len(de.Entries)+1)
		got = append(got, deltaEntry{ID: de.ID, Addr: de.Addr, Entries: de.Entries[:j]})
	}
	obs.ApplyDelta(got)
	w, known := obs.nodes["o"]
	if !known {
		// only possible when the owner had nothing to send
		v.Assert("C02/first/unknown-only-if-empty", len(d) == 0)
		return
	}
	vAssertInv("C02/first", o, oc, w, K)
	v.Cover("first-delta")
}

// Harness_C02_local_immutable: arbitrary (hostile) deltas and digests never
// change the receiver's own published state and never crash it.
func Harness_C02_local_immutable() {
	N := v.Param("N", 2)
	M := v.Param("M", 2)
	obs := vNewState("obs", &vRecorder{})
	obs.UpsertLocal("a", v.Str("a"))
	obs.UpsertLocal("b", v.Str("b"))
	if v.Choose("deleted", 2) == 1 {
		obs.DeleteLocal("b")
	}
	local := obs.nodes["obs"]
	before := vSnapshot(local)
	beforeMeta := local.NodeMetadata

	var d delta
	var dg digest
	for i := 0; i < N; i++ {
		id := v.Str("id")
		de := deltaEntry{ID: id, Addr: v.Str("addr")}
		m := v.Choose("entries", M+1)
		for j := 0; j < m; j++ {
			de.Entries = append(de.Entries, Entry{
				Key: v.Str("key"), Value: v.Str("value"), Version: v.U64("version"),
				Internal: v.Bool("internal"), Deleted: v.Bool("deleted"),
			})
		}
		d = append(d, de)
		dg = append(dg, digestEntry{ID: id, Addr: v.Str("daddr"), Version: v.U64("dversion"), Left: v.Bool("dleft")})
	}
	if v.Choose("digest-first", 2) == 1 {
		obs.ApplyDigest(dg)
	}
	obs.ApplyDelta(d)
	obs.ApplyDigest(dg)

	after := obs.nodes["obs"]
	v.Assert("C02/hostile/local-node-kept", after == local)
	v.Assert("C02/hostile/local-metadata", after.NodeMetadata == beforeMeta)
	v.Assert("C02/hostile/local-entries", len(after.Entries) == len(before))
	for k, e := range before {
		f, p := after.Entries[k]
		v.Assert("C02/hostile/local-entries", p)
		v.Assert("C02/hostile/local-entries", e == f)
	}
	v.Cover("hostile-applied")
}

// Harness_C02_report: what Node() reports is exactly the internal view, in
// version order.
func Harness_C02_report() {
	K := v.Param("K", 1)
	_, o, oc := vOwnerState("o", K, nil)
	obs := vNewState("obs", nil)
	w := vViewOf("w", obs, o, oc, K)
	ns, ok := obs.Node("o")
	v.Assert("C02/report/known", ok)
	v.Assert("C02/report/metadata", ns.NodeMetadata == w.NodeMetadata)
	v.Assert("C02/report/count", len(ns.Entries) == len(w.Entries))
	for i, e := range ns.Entries {
		f, p := w.Entries[e.Key]
		v.Assert("C02/report/entry", p)
		v.Assert("C02/report/entry", e == f)
		if i > 0 {
			v.Assert("C02/report/sorted", ns.Entries[i-1].Version < e.Version)
		}
	}
	_, unknown := obs.Node("nobody")
	v.Assert("C02/report/unknown", !unknown)
	v.Cover("report")
}
