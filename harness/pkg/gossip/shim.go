//go:build verif

package gossip

// Exported access to the unexported gossip state for harnesses living in
// other packages (overlay only; nothing here exists in a normal build).

type VerifClusterState = clusterState

// VerifDetector is a failure detector whose suspicion levels are set by the
// harness.
type VerifDetector struct {
	Levels  map[string]float64
	Removed []string
	Reports []string
}

func (d *VerifDetector) Report(nodeID string) { d.Reports = append(d.Reports, nodeID) }
func (d *VerifDetector) SuspicionLevel(nodeID string) float64 {
	return d.Levels[nodeID]
}
func (d *VerifDetector) Remove(nodeID string) { d.Removed = append(d.Removed, nodeID) }

func VerifNewClusterState(localID, localAddr string, d *VerifDetector, w Watcher) *clusterState {
	if w == nil {
		w = &nopWatcher{}
	}
	return newClusterState(localID, localAddr, d, newMetrics(), w)
}
