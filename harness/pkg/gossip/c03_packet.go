//go:build verif

package gossip

import (
	v "github.com/andydunstall/piko/zzverif"
)

// Harness_C03_packet_progress: the premise of the progress argument - every
// delta packet sent to an observer that is behind carries at least the first
// outstanding entry. Real encodeDelta with the codec size model of C13.
//
// It does not hold when the first outstanding entry alone does not fit into a
// packet together with the headers (finding F7): entries are sent in version
// order, so such an entry blocks every later entry of that node as well.
func Harness_C03_packet_progress() {
	v.Tag("c13-codec")
	S := v.Param("S", 4)
	M := v.Param("M", 2)
	hdr := 1 + v.Choose("size.header", 2)
	node := 1 + v.Choose("size.node", 2)
	vSizes = []int{hdr, node}
	de := deltaEntry{ID: "o", Addr: "addr"}
	m := 1 + v.Choose("entries", M)
	first := 0
	for j := 0; j < m; j++ {
		sz := 1 + v.Choose("size.entry", S)
		if j == 0 {
			first = sz
		}
		vSizes = append(vSizes, sz)
		de.Entries = append(de.Entries, Entry{Key: "k", Value: v.Str("val"), Version: uint64(j + 1)})
	}
	max := v.Int("maxPacketSize", 0, 24)
	// a configuration in which the bare headers fit (otherwise nothing can ever be sent)
	v.Assume(2+hdr+node <= max)
	vCodecReset(2)
	b, err := encodeDelta(deltaHeader{NodeID: "me", Addr: "addr"}, delta{de}, max)
	v.Assert("C03/packet/encodes", err == nil)
	n := vCheckPrefix("C03/packet", b, max)
	v.Class("F7", 2+hdr+node+first > max)
	v.Assert("C03/packet/first-outstanding-entry-delivered", n >= 3)
	v.Cover("entry-delivered")
}
