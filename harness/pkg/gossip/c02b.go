//go:build verif

package gossip

import (
	v "github.com/andydunstall/piko/zzverif"
)

// Harness_C02_old_entries_ignored: whatever arrives late - duplicated,
// delayed or reordered packets, or a lagging relay replaying state from before
// a compaction - entries at or below the version the observer already reports
// are never applied: the view, its version and its flags stay exactly as they
// are and the watcher hears nothing.
func Harness_C02_old_entries_ignored() {
	K := v.Param("K", 1)
	M := v.Param("M", 2)
	_, o, oc := vOwnerState("o", K, nil)
	rec := &vRecorder{}
	obs := vNewState("obs", rec)
	w := vViewOf("w", obs, o, oc, K)
	before := vSnapshot(w)
	meta := w.NodeMetadata
	keys := vKeys(K)
	var es []Entry
	m := 1 + v.Choose("entries", M)
	for i := 0; i < m; i++ {
		e := Entry{Key: keys[v.Choose("key", len(keys))], Value: v.Str("value"), Version: v.U64("version"), Deleted: v.Bool("deleted")}
		e.Internal = e.Key == leftKey || e.Key == compactKey
		v.Assume(e.Version <= w.Version)
		es = append(es, e)
	}
	obs.ApplyDelta(delta{deltaEntry{ID: "o", Addr: w.Addr, Entries: es}})
	w2 := obs.nodes["o"]
	v.Assert("C02/old/same-node", w2 == w)
	v.Assert("C02/old/metadata-unchanged", w2.NodeMetadata == meta)
	v.Assert("C02/old/entry-count-unchanged", len(w2.Entries) == len(before))
	for k, e := range before {
		f, p := w2.Entries[k]
		v.Assert("C02/old/entries-unchanged", p)
		v.Assert("C02/old/entries-unchanged", e == f)
	}
	v.Assert("C02/old/no-notifications", len(rec.Events) == 0)
	v.Cover("old-entries")
}

// Harness_C02_forgotten_then_delta: a delta that answers a digest the
// observer sent BEFORE it forgot the owner (the owner was left or unreachable
// and its expiry passed while the answer was in flight - datagrams can be
// delayed arbitrarily). The answer only carries the entries above the version
// the digest named. Whatever the observer reports about the owner afterwards
// must still be a consistent view (or nothing).
func Harness_C02_forgotten_then_delta() {
	K := v.Param("K", 1)
	os, o, oc := vOwnerState("o", K, nil)
	obs := vNewState("obs", nil)
	w := vViewOf("w", obs, o, oc, K)
	dg := obs.Digest()
	// the sender: the owner itself or a relay with its own consistent view
	sender := os
	if v.Choose("via-relay", 2) == 1 {
		sender = vNewState("r", nil)
		vViewOf("rv", sender, o, oc, K)
		v.Cover("via-relay")
	}
	d := sender.Delta(dg, false)
	// meanwhile the observer forgets the owner
	if !w.Left {
		w.Unreachable = true
	}
	w.Expiry = v.Time("expiry")
	sweep := v.Time("sweep")
	obs.RemoveExpiredAt(sweep)
	_, still := obs.nodes["o"]
	v.Assume(!still)
	// datagram path (packetListener.delta)
	obs.ApplyKnownDelta(d)
	w2, known := obs.nodes["o"]
	if !known {
		v.Cover("stays-forgotten")
		// it is discovered again from a digest (version 0) and then receives a
		// full state, which is a consistent view again
		obs.ApplyDigest(sender.Digest())
		if w3, again := obs.nodes["o"]; again {
			v.Assert("C02/forgotten/rediscovered-at-version-0", w3.Version == 0 && len(w3.Entries) == 0)
			obs.ApplyKnownDelta(sender.Delta(obs.Digest(), false))
			vAssertInv("C02/forgotten/after-rediscovery", o, oc, obs.nodes["o"], K)
			v.Cover("rediscovered")
		}
		return
	}
	v.Cover("recreated")
	vAssertInv("C02/forgotten", o, oc, w2, K)
}
