//go:build verif

package gossip

import (
	v "github.com/andydunstall/piko/zzverif"
)

// Harness_C02_old_entries_ignored: whatever arrives late - duplicated,
// delayed or reordered packets, or a lagging relay replaying state from before
// a compaction - entries at or below the version the observer already reports
// are never applied: the view, its version and its flags stay exactly as they
// are and the watcher hears nothing.
func Harness_C02_old_entries_ignored() {
	K := v.Param("K", 1)
	M := v.Param("M", 2)
	_, o, oc := vOwnerState("o", K, nil)
	rec := &vRecorder{}
	obs := vNewState("obs", rec)
	w := vViewOf("w", obs, o, oc, K)
	before := vSnapshot(w)
	meta := w.NodeMetadata
	keys := vKeys(K)
	var es []Entry
	m := 1 + v.Choose("entries", M)
	for i := 0; i < m; i++ {
		e := Entry{Key: keys[v.Choose("key", len(keys))], Value: v.Str("value"), Version: v.U64("version"), Deleted: v.Bool("deleted")}
		e.Internal = e.Key == leftKey || e.Key == compactKey
		v.Assume(e.Version <= w.Version)
		es = append(es, e)
	}
	obs.ApplyDelta(delta{deltaEntry{ID: "o", Addr: w.Addr, Entries: es}})
	w2 := obs.nodes["o"]
	v.Assert("C02/old/same-node", w2 == w)
	v.Assert("C02/old/metadata-unchanged", w2.NodeMetadata == meta)
	v.Assert("C02/old/entry-count-unchanged", len(w2.Entries) == len(before))
	for k, e := range before {
		f, p := w2.Entries[k]
		v.Assert("C02/old/entries-unchanged", p)
		v.Assert("C02/old/entries-unchanged", e == f)
	}
	v.Assert("C02/old/no-notifications", len(rec.Events) == 0)
	v.Cover("old-entries")
}
