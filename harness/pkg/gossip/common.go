//go:build verif

package gossip

import (
	"strconv"

	v "github.com/andydunstall/piko/zzverif"
)

// Key universe of the gossip harnesses: K user keys plus the two internal keys.
var vUserKeys = []string{"k0", "k1", "k2", "k3"}

// vValueFor, when set, generates the symbolic value of a user key (used by
// harnesses whose keys carry structured values, e.g. endpoint counts).
var vValueFor func(pfx, key string) string

// vSkipKeys lists keys that no built state contains (bound reduction).
var vSkipKeys = map[string]bool{}

// vDeletable, when set, tells which user keys the owner ever deletes.
var vDeletable func(key string) bool

func vKeys(K int) []string {
	ks := append([]string(nil), vUserKeys[:K]...)
	return append(ks, leftKey, compactKey)
}

// vRecorder is a Watcher that records every notification in order.
type vRecorder struct {
	Events []vEvent
}

type vEvent struct {
	Kind  string // join leave reachable unreachable upsert delete expired
	Node  string
	Key   string
	Value string
}

func (r *vRecorder) OnJoin(id string)  { r.Events = append(r.Events, vEvent{Kind: "join", Node: id}) }
func (r *vRecorder) OnLeave(id string) { r.Events = append(r.Events, vEvent{Kind: "leave", Node: id}) }
func (r *vRecorder) OnReachable(id string) {
	r.Events = append(r.Events, vEvent{Kind: "reachable", Node: id})
}
func (r *vRecorder) OnUnreachable(id string) {
	r.Events = append(r.Events, vEvent{Kind: "unreachable", Node: id})
}
func (r *vRecorder) OnUpsertKey(id, key, value string) {
	r.Events = append(r.Events, vEvent{Kind: "upsert", Node: id, Key: key, Value: value})
}
func (r *vRecorder) OnDeleteKey(id, key string) {
	r.Events = append(r.Events, vEvent{Kind: "delete", Node: id, Key: key})
}
func (r *vRecorder) OnExpired(id string) {
	r.Events = append(r.Events, vEvent{Kind: "expired", Node: id})
}

func vNewState(localID string, w Watcher) *clusterState {
	if w == nil {
		w = &nopWatcher{}
	}
	return newClusterState(localID, "addr-"+localID, &VerifDetector{Levels: map[string]float64{}}, newMetrics(), w)
}

// vBuildNode builds a nodeState for node id with an arbitrary subset of the
// key universe present and symbolic contents. Presence is a concrete fork;
// versions, values and deletion flags are symbolic. The compaction marker's
// value is decimal(c) for a symbolic c.
func vBuildNode(pfx, id string, K int) (*nodeState, uint64) {
	n := &nodeState{
		NodeMetadata: NodeMetadata{ID: id, Addr: "addr-" + id, Version: v.U64(pfx + ".version")},
		Entries:      make(map[string]Entry),
	}
	v.Assume(n.Version < 1<<62)
	var c uint64
	for _, key := range vKeys(K) {
		if vSkipKeys[key] {
			continue // reduced bound: this key is absent in every built state
		}
		if v.Choose(pfx+"."+key+".present", 2) == 0 {
			continue
		}
		e := Entry{Key: key, Version: v.U64(pfx + "." + key + ".ver")}
		switch key {
		case leftKey:
			e.Internal = true
		case compactKey:
			e.Internal = true
			c = v.U64(pfx + ".compact.c")
			e.Value = v.Dec(c)
		default:
			if vValueFor != nil {
				// structured values: the deletion flag is a concrete fork so
				// that the value keeps its structure (decimal(n), ...)
				if (vDeletable == nil || vDeletable(key)) && v.Choose(pfx+"."+key+".del", 2) == 1 {
					e.Deleted = true
				} else {
					e.Value = vValueFor(pfx, key)
				}
			} else {
				e.Deleted = v.Bool(pfx + "." + key + ".del")
				e.Value = v.Str(pfx + "." + key + ".val")
			}
		}
		n.Entries[key] = e
	}
	_, n.Left = n.Entries[leftKey]
	vCompactC[n] = c
	return n, c
}

// vCompactC remembers, per built node state, the symbolic discard point c of
// its compaction marker (the marker's value is decimal(c)).
var vCompactC = map[*nodeState]uint64{}

// vWfOwner: what every owner state satisfies (proved inductive for the four
// local writers by Harness_C17_step).
func vWfOwner(n *nodeState, K int, c uint64) bool {
	ok := true
	hasMax := false
	keys := vKeys(K)
	for i, ki := range keys {
		e, present := n.Entries[ki]
		if !present {
			continue
		}
		ok = v.And(ok, e.Version >= 1)
		ok = v.And(ok, e.Version <= n.Version)
		hasMax = v.Or(hasMax, e.Version == n.Version)
		ok = v.And(ok, v.Implies(e.Deleted, e.Value == ""))
		for _, kj := range keys[i+1:] {
			f, p2 := n.Entries[kj]
			if p2 {
				ok = v.And(ok, e.Version != f.Version)
			}
		}
	}
	if len(n.Entries) == 0 {
		ok = v.And(ok, n.Version == 0)
	} else {
		ok = v.And(ok, hasMax)
	}
	if m, present := n.Entries[compactKey]; present {
		ok = v.And(ok, c < m.Version)
		for _, k := range keys {
			e, p := n.Entries[k]
			if !p || k == compactKey {
				continue
			}
			ok = v.And(ok, v.Or(v.And(c < e.Version, e.Version < m.Version), e.Version > m.Version))
		}
	}
	_, hasLeft := n.Entries[leftKey]
	ok = v.And(ok, n.Left == hasLeft)
	return ok
}

// vMarker returns the owner's compaction marker (M, c) or (0, 0).
func vMarker(n *nodeState, c uint64) (uint64, uint64) {
	if m, ok := n.Entries[compactKey]; ok {
		return m.Version, c
	}
	return 0, 0
}

// vClause is one named conjunct of the observer invariant.
type vClause struct {
	Name string
	OK   bool
}

// vInvClauses: the observer invariant inv(o, w) of DESIGN.md §6 for the view
// w a node holds of owner o. (M, c) is the owner's current compaction marker.
//
//	(a) w.Version <= o.Version
//	(b) every owner entry with version <= w.Version is in the view, equal
//	(c) every view entry has 1 <= version <= w.Version and is the owner's
//	    entry, or an older write of a key the owner has since rewritten past
//	    w.Version, or it is stale: version <= c and w.Version < M (it
//	    disappears when the marker arrives). A view entry is never newer than
//	    the owner's entry for the same key, and equal versions mean equal
//	    entries. The left marker is written once and only ever re-versioned by
//	    compaction, so a view's left marker is the owner's or is stale with the
//	    owner's re-versioned one in (c, M).
//	(d) w.Version > 0 => the view holds an entry with that version
//	(e) the view holds the left marker => w.Left => o.Left
//	(f) versions inside the view are pairwise distinct
func vInvClauses(o *nodeState, oc uint64, w *nodeState, K int) []vClause {
	x := w.Version
	M, c := vMarker(o, oc)
	var cl []vClause
	add := func(name string, ok bool) { cl = append(cl, vClause{name, ok}) }
	add("a-not-ahead", x <= o.Version)
	hasX := false
	keys := vKeys(K)
	for i, k := range keys {
		oe, op := o.Entries[k]
		we, wp := w.Entries[k]
		if op {
			if wp {
				add("b-complete-upto-version", v.Implies(oe.Version <= x, we == oe))
			} else {
				add("b-complete-upto-version", oe.Version > x)
			}
		}
		if wp {
			add("c-entry-version-bounded", v.And(we.Version <= x, we.Version >= 1))
			hasX = v.Or(hasX, we.Version == x)
			stale := v.And(we.Version <= c, x < M)
			if op {
				add("c-entry-genuine-or-stale", v.Or(we == oe, v.Or(oe.Version > x, stale)))
				add("c-entry-not-newer", v.Or(we == oe, we.Version < oe.Version))
				if k == compactKey {
					// the marker is only ever rewritten by a later compaction,
					// whose discard point covers every earlier version
					add("c-marker-rewritten-by-compaction", v.Or(we == oe, we.Version <= c))
				}
			} else {
				add("c-entry-genuine-or-stale", stale)
				if k == leftKey || k == compactKey {
					add("c-internal-never-deleted", false)
				}
			}
			if k == compactKey {
				// a marker held by a view is a genuine old marker (Mw, cw):
				// cw < Mw and applying it removed everything at or below cw
				cw, err := strconv.ParseUint(we.Value, 10, 64)
				add("g-view-marker-wellformed", err == nil)
				add("g-view-marker-wellformed", cw < we.Version)
				for _, k2 := range keys {
					if w2, p2 := w.Entries[k2]; p2 && k2 != compactKey {
						add("g-view-marker-wellformed", w2.Version > cw)
					}
				}
			}
			for _, k2 := range keys[i+1:] {
				if w2, p2 := w.Entries[k2]; p2 {
					add("f-distinct-versions", we.Version != w2.Version)
				}
			}
		}
	}
	if len(w.Entries) == 0 {
		add("d-version-witness", x == 0)
	} else {
		add("d-version-witness", hasX)
	}
	_, hasLeft := w.Entries[leftKey]
	// the flag is set when the left marker is applied and never cleared; the
	// marker entry itself can be transiently absent (a relayed old compaction
	// marker may discard it before its re-versioned copy arrives)
	add("e-left-flag", v.And(v.Implies(hasLeft, w.Left), v.Implies(w.Left, o.Left)))
	return cl
}

func vInv(o *nodeState, oc uint64, w *nodeState, K int) bool {
	ok := true
	for _, c := range vInvClauses(o, oc, w, K) {
		ok = v.And(ok, c.OK)
	}
	return ok
}

func vAssertInv(tag string, o *nodeState, oc uint64, w *nodeState, K int) {
	for _, c := range vInvClauses(o, oc, w, K) {
		v.Assert(tag+"/"+c.Name, c.OK)
	}
}

// vSnapshot copies a node's entries.
func vSnapshot(n *nodeState) map[string]Entry {
	m := make(map[string]Entry)
	for k, e := range n.Entries {
		m[k] = e
	}
	return m
}

func vAtoi(s string) (int, bool) {
	n, err := strconv.Atoi(s)
	return n, err == nil
}
