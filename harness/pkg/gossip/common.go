//go:build verif

package gossip

import (
	"strconv"

	v "github.com/andydunstall/piko/zzverif"
)

// Key universe of the gossip harnesses: K user keys plus the two internal keys.
var vUserKeys = []string{"k0", "k1", "k2", "k3"}

func vKeys(K int) []string {
	ks := append([]string(nil), vUserKeys[:K]...)
	return append(ks, leftKey, compactKey)
}

// vRecorder is a Watcher that records every notification in order.
type vRecorder struct {
	Events []vEvent
}

type vEvent struct {
	Kind  string // join leave reachable unreachable upsert delete expired
	Node  string
	Key   string
	Value string
}

func (r *vRecorder) OnJoin(id string)        { r.Events = append(r.Events, vEvent{Kind: "join", Node: id}) }
func (r *vRecorder) OnLeave(id string)       { r.Events = append(r.Events, vEvent{Kind: "leave", Node: id}) }
func (r *vRecorder) OnReachable(id string)   { r.Events = append(r.Events, vEvent{Kind: "reachable", Node: id}) }
func (r *vRecorder) OnUnreachable(id string) { r.Events = append(r.Events, vEvent{Kind: "unreachable", Node: id}) }
func (r *vRecorder) OnUpsertKey(id, key, value string) {
	r.Events = append(r.Events, vEvent{Kind: "upsert", Node: id, Key: key, Value: value})
}
func (r *vRecorder) OnDeleteKey(id, key string) {
	r.Events = append(r.Events, vEvent{Kind: "delete", Node: id, Key: key})
}
func (r *vRecorder) OnExpired(id string) { r.Events = append(r.Events, vEvent{Kind: "expired", Node: id}) }

func vNewState(localID string, w Watcher) *clusterState {
	if w == nil {
		w = &nopWatcher{}
	}
	return newClusterState(localID, "addr-"+localID, &VerifDetector{Levels: map[string]float64{}}, newMetrics(), w)
}

// vBuildNode builds a nodeState for node id with an arbitrary subset of the
// key universe present and symbolic contents. Presence is a concrete fork;
// versions, values and deletion flags are symbolic. The compaction marker's
// value is decimal(c) for a symbolic c.
func vBuildNode(pfx, id string, K int) (*nodeState, uint64) {
	n := &nodeState{
		NodeMetadata: NodeMetadata{ID: id, Addr: "addr-" + id, Version: v.U64(pfx + ".version")},
		Entries:      make(map[string]Entry),
	}
	v.Assume(n.Version < 1<<62)
	var c uint64
	for _, key := range vKeys(K) {
		if v.Choose(pfx+"."+key+".present", 2) == 0 {
			continue
		}
		e := Entry{Key: key, Version: v.U64(pfx + "." + key + ".ver")}
		switch key {
		case leftKey:
			e.Internal = true
		case compactKey:
			e.Internal = true
			c = v.U64(pfx + ".compact.c")
			e.Value = v.Dec(c)
		default:
			e.Deleted = v.Bool(pfx + "." + key + ".del")
			e.Value = v.Str(pfx + "." + key + ".val")
		}
		n.Entries[key] = e
	}
	_, n.Left = n.Entries[leftKey]
	return n, c
}

// vWfOwner: what every owner state satisfies (proved inductive for the four
// local writers by Harness_C17_step).
func vWfOwner(n *nodeState, K int, c uint64) bool {
	ok := true
	hasMax := false
	keys := vKeys(K)
	for i, ki := range keys {
		e, present := n.Entries[ki]
		if !present {
			continue
		}
		ok = v.And(ok, e.Version >= 1)
		ok = v.And(ok, e.Version <= n.Version)
		hasMax = v.Or(hasMax, e.Version == n.Version)
		ok = v.And(ok, v.Implies(e.Deleted, e.Value == ""))
		for _, kj := range keys[i+1:] {
			f, p2 := n.Entries[kj]
			if p2 {
				ok = v.And(ok, e.Version != f.Version)
			}
		}
	}
	if len(n.Entries) == 0 {
		ok = v.And(ok, n.Version == 0)
	} else {
		ok = v.And(ok, hasMax)
	}
	if m, present := n.Entries[compactKey]; present {
		ok = v.And(ok, c < m.Version)
		for _, k := range keys {
			e, p := n.Entries[k]
			if !p || k == compactKey {
				continue
			}
			ok = v.And(ok, v.Or(v.And(c < e.Version, e.Version < m.Version), e.Version > m.Version))
		}
	}
	_, hasLeft := n.Entries[leftKey]
	ok = v.And(ok, n.Left == hasLeft)
	return ok
}

// vMarker returns the owner's compaction marker (M, c) or (0, 0).
func vMarker(n *nodeState, c uint64) (uint64, uint64) {
	if m, ok := n.Entries[compactKey]; ok {
		return m.Version, c
	}
	return 0, 0
}

// vInv: the observer invariant inv(o, w) of DESIGN.md §6 for the view w a
// node holds of owner o. (M, c) is the owner's current compaction marker.
//
//	(a) w.Version <= o.Version
//	(b) every owner entry with version <= w.Version is in the view, equal
//	(c) every view entry has version <= w.Version and is the owner's entry,
//	    or the owner's entry for that key is newer than w.Version, or it is
//	    stale: version <= c and w.Version < M (it disappears when the marker arrives)
//	(d) w.Version > 0 => the view holds an entry with that version
//	(e) w.Left <=> the view holds the left marker (hence w.Left => o.Left)
func vInv(o *nodeState, oc uint64, w *nodeState, K int) bool {
	x := w.Version
	M, c := vMarker(o, oc)
	ok := x <= o.Version
	hasX := false
	for _, k := range vKeys(K) {
		oe, op := o.Entries[k]
		we, wp := w.Entries[k]
		if op {
			if wp {
				ok = v.And(ok, v.Implies(oe.Version <= x, we == oe))
			} else {
				ok = v.And(ok, oe.Version > x)
			}
		}
		if wp {
			ok = v.And(ok, we.Version <= x)
			ok = v.And(ok, we.Version >= 1)
			hasX = v.Or(hasX, we.Version == x)
			stale := v.And(we.Version <= c, x < M)
			if op {
				ok = v.And(ok, v.Or(we == oe, v.Or(oe.Version > x, stale)))
			} else {
				ok = v.And(ok, stale)
			}
		}
	}
	if len(w.Entries) == 0 {
		ok = v.And(ok, x == 0)
	} else {
		ok = v.And(ok, hasX)
	}
	_, hasLeft := w.Entries[leftKey]
	ok = v.And(ok, w.Left == hasLeft)
	return ok
}

// vSnapshot copies a node's entries.
func vSnapshot(n *nodeState) map[string]Entry {
	m := make(map[string]Entry)
	for k, e := range n.Entries {
		m[k] = e
	}
	return m
}

func vAtoi(s string) (int, bool) {
	n, err := strconv.Atoi(s)
	return n, err == nil
}
