//go:build verif

package gossip

import (
	"time"

	v "github.com/andydunstall/piko/zzverif"
)

const vMaxInterval = int64(1) << 40 // ~18 minutes in ns; bound on any single interval

// vBuildIntervals builds an arbitrary arrivalIntervals state satisfying the
// window invariant: 0<=index<=W; isFull => index>=1; the valid slots are
// [0,index) (or all W when full); every valid slot holds an interval in
// (0, 2^40); sum is the sum of the valid slots; mean = sum/size.
func vBuildIntervals(W int) *arrivalIntervals {
	ai := newArrivalIntervals(W)
	ai.isFull = v.Choose("full", 2) == 1
	if ai.isFull {
		ai.index = 1 + v.Choose("index", W)
	} else {
		ai.index = v.Choose("index", W+1)
	}
	var sum int64
	for i := 0; i < W; i++ {
		if ai.isFull || i < ai.index {
			x := v.I64("slot")
			v.Assume(v.And(x > 0, x < vMaxInterval))
			ai.intervals[i] = x
			sum += x
		} else {
			ai.intervals[i] = v.I64("garbage") // never read
		}
	}
	ai.sum = sum
	if ai.size() > 0 {
		ai.mean = float64(ai.sum) / float64(ai.size())
	}
	return ai
}

// vRecent returns the valid intervals, most recent first.
func vRecent(ai *arrivalIntervals) []int64 {
	W := len(ai.intervals)
	n := ai.size()
	out := make([]int64, 0, n)
	for j := 0; j < n; j++ {
		out = append(out, ai.intervals[((ai.index-1-j)%W+W)%W])
	}
	return out
}

// Harness_C12_window_step: one Add on an arbitrary invariant window state.
// By induction this covers arrival sequences of any length.
func Harness_C12_window_step() {
	W := 1 + v.Choose("W", v.Param("W", 3))
	ai := vBuildIntervals(W)
	before := vRecent(ai)
	x := v.I64("interval")
	v.Assume(v.And(x > 0, x < vMaxInterval))
	ai.Add(x)

	idx := v.Concretize(ai.index, 0, W)
	v.Assert("C12/window/index-range", idx >= 1 && idx <= W)
	ai.index = idx
	after := vRecent(ai)
	want := len(before) + 1
	if want > W {
		want = W
		v.Assert("C12/window/full-flag", ai.isFull)
		v.Cover("evicts-oldest")
	}
	v.Assert("C12/window/size", len(after) == want)
	v.Assert("C12/window/newest-is-added", after[0] == x)
	var sum int64
	for j := 0; j < len(after); j++ {
		if j > 0 {
			// the j-th most recent is what was the (j-1)-th most recent
			v.Assert("C12/window/order-kept", after[j] == before[j-1])
		}
		sum += after[j]
	}
	v.Assert("C12/window/sum-is-window-sum", ai.sum == sum)
	v.Assert("C12/window/sum-positive", ai.sum > 0)
	v.Assert("C12/window/mean-is-window-mean", ai.Mean() == float64(sum)/float64(len(after)))
	if len(before) < W {
		v.Cover("grows")
	}
}

// Harness_C12_mean_bounds: the mean of an arbitrary invariant window lies
// between its smallest and largest interval (IEEE double arithmetic).
func Harness_C12_mean_bounds() {
	W := 1 + v.Choose("W", v.Param("W", 2))
	ai := vBuildIntervals(W)
	v.Assume(ai.size() > 0)
	lo := v.I64("lo")
	hi := v.I64("hi")
	v.Assume(v.And(lo > 0, v.And(lo <= hi, hi < vMaxInterval)))
	allGE, allLE := true, true
	for _, x := range vRecent(ai) {
		allGE = v.And(allGE, x >= lo)
		allLE = v.And(allLE, x <= hi)
	}
	v.Assert("C12/mean/at-least-smallest", v.Implies(allGE, ai.Mean() >= float64(lo)))
	v.Assert("C12/mean/at-most-largest", v.Implies(allLE, ai.Mean() <= float64(hi)))
	v.Assert("C12/mean/positive", ai.Mean() > 0)
	v.Cover("mean-bounds")
}

// Harness_C12_phi: the real Phi() on a window whose mean is an arbitrary
// double between float64(lo) and float64(hi) (what Harness_C12_mean_bounds
// establishes for every window with intervals in [lo, hi]).
func Harness_C12_phi() {
	lo := v.I64("lo")
	hi := v.I64("hi")
	v.Assume(v.And(lo > 0, v.And(lo <= hi, hi < vMaxInterval)))
	m := v.F64("mean")
	v.Assume(v.And(m >= float64(lo), m <= float64(hi)))
	last := v.Time("last")
	w := &arrivalWindow{lastTimestamp: last, intervals: &arrivalIntervals{mean: m}, bootstrapInterval: time.Second}

	// zero at the moment the peer is heard from
	v.Assert("C12/phi/zero-at-arrival", w.Phi(last) == 0)

	d := v.I64("d")
	v.Assume(v.And(d >= 0, d < 1<<50))
	p := w.Phi(last.Add(time.Duration(d)))
	v.Assert("C12/phi/non-negative", p >= 0)
	// steady peers are not suspected, silent peers are (threshold 20)
	v.Assert("C12/phi/steady-never-suspected", v.Implies(d <= 19*lo, p <= suspicionThreshold))
	v.Assert("C12/phi/silent-always-suspected", v.Implies(v.And(d >= 21*hi, d > 0), p > suspicionThreshold))
	// proportional to the silence: exactly float64(silence)/mean
	v.Assert("C12/phi/is-silence-over-mean", p == float64(d)/m)
	v.Cover("phi")
}

// Harness_C12_detector: bootstrap behaviour and per-node bookkeeping of the
// real accrualFailureDetector.
func Harness_C12_detector() {
	boot := v.I64("bootstrap")
	v.Assume(v.And(boot > 0, boot < vMaxInterval))
	W := 1 + v.Choose("W", v.Param("W", 3))
	d := newAccrualFailureDetector(time.Duration(boot), W)
	t0 := v.Time("t0")
	switch v.Choose("scenario", 3) {
	case 0: // never heard from: level 0 at the first query, then grows against the bootstrap interval
		v.Assert("C12/detector/unknown-starts-at-zero", d.SuspicionLevelAt("x", t0) == 0)
		dt := v.I64("dt")
		v.Assume(v.And(dt >= 0, dt < 1<<50))
		p := d.SuspicionLevelAt("x", t0.Add(time.Duration(dt)))
		v.Assert("C12/detector/unknown-eventually-suspected", v.Implies(dt >= 21*boot, p > suspicionThreshold))
		v.Assert("C12/detector/unknown-grace", v.Implies(dt <= 19*boot, p <= suspicionThreshold))
		v.Cover("never-heard")
	case 1: // first report: the window holds exactly the bootstrap interval
		d.ReportWithTimestamp("x", t0)
		w := d.windows["x"]
		v.Assert("C12/detector/first-sample-is-bootstrap", w.intervals.size() == 1 && w.intervals.intervals[0] == boot)
		v.Assert("C12/detector/zero-when-heard", d.SuspicionLevelAt("x", t0) == 0)
		v.Cover("first-report")
	case 2: // second report: the real interval joins the window; other nodes unaffected; Remove forgets
		gap := v.I64("gap")
		v.Assume(v.And(gap > 0, gap < vMaxInterval))
		d.ReportWithTimestamp("x", t0)
		d.ReportWithTimestamp("y", t0)
		t1 := t0.Add(time.Duration(gap))
		d.ReportWithTimestamp("x", t1)
		wx := d.windows["x"]
		if W >= 2 {
			v.Assert("C12/detector/interval-recorded", wx.intervals.size() == 2 && wx.intervals.sum == boot+gap)
		} else {
			v.Assert("C12/detector/interval-recorded", wx.intervals.size() == 1 && wx.intervals.sum == gap)
		}
		v.Assert("C12/detector/zero-when-heard", d.SuspicionLevelAt("x", t1) == 0)
		v.Assert("C12/detector/per-node", d.windows["y"].intervals.size() == 1)
		d.Remove("x")
		_, still := d.windows["x"]
		v.Assert("C12/detector/remove-forgets", !still)
		v.Cover("second-report")
	}
}

// Harness_C12_hist: W=2, four arrivals from the constructor; only the last
// two intervals influence the level (checked against integer arithmetic).
func Harness_C12_hist() {
	boot := int64(time.Second)
	d := newAccrualFailureDetector(time.Duration(boot), 2)
	t := v.Time("t0")
	var gaps [3]int64
	d.ReportWithTimestamp("x", t)
	for i := 0; i < 3; i++ {
		gaps[i] = v.I64("gap")
		v.Assume(v.And(gaps[i] > 0, gaps[i] < vMaxInterval))
		t = t.Add(time.Duration(gaps[i]))
		d.ReportWithTimestamp("x", t)
	}
	w := d.windows["x"]
	v.Assert("C12/hist/window-is-last-two", w.intervals.sum == gaps[1]+gaps[2])
	// only the last two intervals are in the window: the mean is theirs
	v.Assert("C12/hist/mean-is-last-two", w.intervals.Mean() == float64(gaps[1]+gaps[2])/2)
	v.Assert("C12/hist/zero-when-heard", d.SuspicionLevelAt("x", t) == 0)
	v.Cover("hist")
}
