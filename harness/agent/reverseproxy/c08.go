//go:build verif

package reverseproxy

import (
	"context"
	"errors"
	"fmt"
	"net/http"
	"net/http/httputil"
	"net/url"
	"time"

	"github.com/andydunstall/piko/pkg/log"
	v "github.com/andydunstall/piko/zzverif"
)

// The agent's reverse proxy (upstream side of a tunnel). httputil is replaced
// by a stub that records the request it is handed and reports a round-trip
// outcome through ErrorHandler.
//
//gosym:stub (*net/http/httputil.ReverseProxy).ServeHTTP = vStubAgentProxy if agent-proxy

var (
	vSeen      *http.Request
	vOutcome   int
	vErrRefuse = errors.New("connection refused")
)

func vStubAgentProxy(p *httputil.ReverseProxy, rw http.ResponseWriter, req *http.Request) {
	vSeen = req
	switch vOutcome {
	case 1:
		p.ErrorHandler(rw, req, context.DeadlineExceeded)
	case 2:
		p.ErrorHandler(rw, req, fmt.Errorf("dial: %w", context.DeadlineExceeded))
	case 3:
		p.ErrorHandler(rw, req, vErrRefuse)
	default:
		rw.WriteHeader(http.StatusOK)
	}
}

type vRecorder struct {
	h    http.Header
	code int
}

func (r *vRecorder) Header() http.Header         { return r.h }
func (r *vRecorder) Write(b []byte) (int, error) { return len(b), nil }
func (r *vRecorder) WriteHeader(code int) {
	if r.code == 0 {
		r.code = code
	}
}

// Harness_C08_agent: timeout attachment and gateway error mapping of the
// agent-side reverse proxy.
func Harness_C08_agent() {
	v.Tag("agent-proxy")
	timeout := time.Duration(v.I64("timeout"))
	v.Assume(timeout >= 0)
	rp := &ReverseProxy{proxy: &httputil.ReverseProxy{}, timeout: timeout, logger: log.NewNopLogger()}
	rp.proxy.ErrorHandler = rp.errorHandler
	vOutcome = v.Choose("outcome", 4)
	vSeen = nil
	h := http.Header{}
	upgrade := []string{"", "websocket", "h2c"}[v.Choose("upgrade", 3)]
	if upgrade != "" {
		h.Set("Upgrade", upgrade)
		// the exemption depends on the Upgrade header alone, whatever shape
		// the Connection header has (absent, exact, Firefox-style list)
		if c := []string{"", "Upgrade", "keep-alive, Upgrade"}[v.Choose("connection", 3)]; c != "" {
			h.Set("Connection", c)
		}
	}
	h.Set("X-Custom", v.Str("x-custom"))
	r := &http.Request{Method: "POST", URL: &url.URL{Path: v.Str("path"), RawQuery: v.Str("query")}, Host: "svc.local", Header: h}
	w := &vRecorder{h: http.Header{}}
	rp.ServeHTTP(w, r)

	v.Assert("C08/agent/proxied", vSeen != nil)
	v.Assert("C08/agent/request-unchanged", vSeen.Method == r.Method && vSeen.URL == r.URL && vSeen.Host == r.Host && len(vSeen.Header) == len(h) && vSeen.Header.Get("X-Custom") == h.Get("X-Custom"))
	d, has := v.CtxTimeout(vSeen.Context())
	if upgrade == "websocket" {
		v.Assert("C08/agent/no-timeout-on-websocket", !has)
		v.Cover("agent-websocket")
	} else {
		v.Assert("C08/agent/timeout-iff-configured", has == (timeout != 0))
		if has {
			v.Assert("C08/agent/timeout-value", d == timeout)
			v.Cover("agent-timeout")
		}
	}
	switch vOutcome {
	case 0:
		v.Assert("C08/agent/success", w.code == http.StatusOK)
	case 1, 2:
		v.Assert("C08/agent/deadline-504", w.code == http.StatusGatewayTimeout)
		v.Cover("agent-504")
	case 3:
		v.Assert("C08/agent/unreachable-502", w.code == http.StatusBadGateway)
		v.Cover("agent-502")
	}
}
