//go:build verif

package tcpproxy

import (
	"errors"
	"net"

	"github.com/andydunstall/piko/agent/config"
	"github.com/andydunstall/piko/pkg/log"
	v "github.com/andydunstall/piko/zzverif"
	"github.com/andydunstall/piko/zzverif/vnet"
)

// The agent's dial to the local service returns a model connection.
//
//gosym:stub (*net.Dialer).Dial = VerifStubDial if agent-tcp

var (
	vDialConn *vnet.Conn
	vDialFail bool
	vDials    int
)

func VerifStubDial(d *net.Dialer, network, address string) (net.Conn, error) {
	vDials++
	if vDialFail {
		return nil, errors.New("connection refused")
	}
	return vDialConn, nil
}

// Harness_C07_forward_agent: the agent TCP proxy's handling of one tunnelled
// connection (serveConn: dial the service, pump both ways, release both).
func Harness_C07_forward_agent() {
	v.Tag("agent-tcp")
	M, L := v.Param("M", 2), v.Param("L", 2)
	svc, tunnel := &vnet.Conn{Name: "service"}, &vnet.Conn{Name: "tunnel"}
	s := NewServer(config.ListenerConfig{EndpointID: "e", Addr: "localhost:9000", Protocol: "tcp"}, log.NewNopLogger())
	vDialConn, vDials = svc, 0
	vDialFail = v.Choose("dial-fails", 2) == 1
	s.addConn(tunnel)
	if vDialFail {
		s.serveConn(tunnel)
		v.Assert("C07/agent/tunnel-released-when-dial-fails", tunnel.Closes >= 1 && len(s.conns) == 0)
		v.Cover("dial-failed")
		return
	}
	fromSvc := vnet.Script(svc, "svc", M, L)
	fromTunnel := vnet.Script(tunnel, "tunnel", M, L)
	vnet.Closer(svc, tunnel)

	s.serveConn(tunnel)

	v.Assert("C07/agent/dialled-once", vDials == 1)
	vnet.CheckPump("C07/agent", svc, tunnel, fromSvc, fromTunnel)
	v.Assert("C07/agent/connection-forgotten", len(s.conns) == 0)
}
