//go:build verif

package forward

import (
	"context"
	"errors"
	"net"

	piko "github.com/andydunstall/piko/client"
	"github.com/andydunstall/piko/pkg/log"
	v "github.com/andydunstall/piko/zzverif"
	"github.com/andydunstall/piko/zzverif/vnet"
)

// The dial of the endpoint through the piko server returns a model connection.
//
//gosym:stub (*github.com/andydunstall/piko/client.Dialer).Dial = VerifStubPikoDial if forward-dial

var (
	vDialConn *vnet.Conn
	vDialFail bool
	vDialled  []string
)

func VerifStubPikoDial(d *piko.Dialer, ctx context.Context, endpointID string) (net.Conn, error) {
	vDialled = append(vDialled, endpointID)
	if vDialFail {
		return nil, errors.New("dial failed")
	}
	return vDialConn, nil
}

// Harness_C07_forward_forwarder: the forward proxy's handling of one local
// connection (forwardConn: dial the endpoint, pump both ways, release both).
func Harness_C07_forward_forwarder() {
	v.Tag("forward-dial")
	M, L := v.Param("M", 2), v.Param("L", 2)
	local, tunnel := &vnet.Conn{Name: "local"}, &vnet.Conn{Name: "tunnel"}
	f := NewForwarder("my-endpoint", &piko.Dialer{}, log.NewNopLogger())
	vDialConn, vDialled = tunnel, nil
	vDialFail = v.Choose("dial-fails", 2) == 1
	if vDialFail {
		f.forwardConn(local)
		v.Assert("C07/forwarder/local-released-when-dial-fails", local.Closes >= 1)
		v.Cover("dial-failed")
		return
	}
	fromLocal := vnet.Script(local, "local", M, L)
	fromTunnel := vnet.Script(tunnel, "tunnel", M, L)
	vnet.Closer(local, tunnel)

	f.forwardConn(local)

	v.Assert("C07/forwarder/dials-its-endpoint", len(vDialled) == 1 && vDialled[0] == "my-endpoint")
	vnet.CheckPump("C07/forwarder", local, tunnel, fromLocal, fromTunnel)
}
