//go:build verif

package client

import (
	"context"
	"errors"
	"net"

	"github.com/andydunstall/yamux"
	"go.uber.org/zap"

	v "github.com/andydunstall/piko/zzverif"
)

// The session and the (re)connect are replaced by scripted stubs. Contract of
// what Accept returns when a session ends, taken from the pinned sources
// (yamux session.go, gorilla conn.go, piko pkg/websocket/conn.go):
//   - the SERVER closes the connection or goes away: gorilla reports a
//     *CloseError (close frame, or the synthetic 1006 on abrupt EOF), piko's
//     Conn.Read maps it to net.ErrClosed, yamux records that as the session's
//     shutdown error and returns it from AcceptStreamWithContext;
//   - the listener is closed LOCALLY: Close()/Shutdown() cancel closeCtx first;
//     Shutdown closes the session, so Accept returns ErrSessionShutdown;
//   - the caller's ctx ends: Accept returns ctx.Err().
//
//gosym:stub (*github.com/andydunstall/yamux.Session).AcceptStreamWithContext = vStubClientAccept if client-yamux
//gosym:stub (*github.com/andydunstall/piko/client.Upstream).connect = vStubConnect if client-yamux

var (
	vAcceptScript []int // 0 stream, 1 net.ErrClosed (server side closed), 2 ErrSessionShutdown, 3 other error, 4 ctx error
	vAcceptCalls  int
	vConnects     int
	vConnectFails bool
	vErrOther     = errors.New("keepalive timeout")
	vErrConnect   = errors.New("401: unauthorized")
)

func vStubClientAccept(s *yamux.Session, ctx context.Context) (*yamux.Stream, error) {
	i := vAcceptCalls
	vAcceptCalls++
	if i >= len(vAcceptScript) {
		return &yamux.Stream{}, nil
	}
	switch vAcceptScript[i] {
	case 0:
		return &yamux.Stream{}, nil
	case 1:
		return nil, net.ErrClosed
	case 2:
		return nil, yamux.ErrSessionShutdown
	case 4:
		if err := ctx.Err(); err != nil {
			return nil, err
		}
		return nil, context.Canceled
	}
	return nil, vErrOther
}

func vStubConnect(u *Upstream, ctx context.Context, endpointID string) (*yamux.Session, error) {
	vConnects++
	if err := ctx.Err(); err != nil {
		return nil, err
	}
	if vConnectFails {
		return nil, vErrConnect
	}
	return &yamux.Session{}, nil
}

// Harness_C18_reconnect: a connected listener whose session ends. If the
// listener was not closed locally and the caller's context is live, it must
// reconnect and keep accepting; it returns ErrClosed only after a local
// Close/Shutdown.
func Harness_C18_reconnect() {
	v.Tag("client-yamux")
	vAcceptCalls, vConnects = 0, 0
	vConnectFails = false
	u := &Upstream{Logger: zap.NewNop()}
	// the listener is created through the public API; the context given to
	// Listen only bounds the initial connect (the agent passes a connect-timeout
	// context there) and may have ended long before the session is lost
	listenCtx, listenCancel := context.WithCancel(context.Background())
	ln, lerr := u.Listen(listenCtx, "e")
	v.Assert("C18/reconnect/listen-connects", lerr == nil && ln != nil && vConnects == 1)
	l := ln.(*listener)
	vConnects = 0
	if v.Choose("listen-context-ended-after-connect", 2) == 1 {
		listenCancel()
		v.Cover("listen-context-ended")
	}
	ctx, cancel := context.WithCancel(context.Background())
	defer cancel()

	cause := v.Choose("cause", 5)
	switch cause {
	case 0: // the server node was stopped gracefully or killed
		vAcceptScript = []int{1}
		v.Cover("server-side-close")
	case 1: // another session failure (e.g. keepalive timeout)
		vAcceptScript = []int{3}
		v.Cover("session-error")
	case 2: // the application closed the listener locally
		l.closeCancel()
		vAcceptScript = []int{2}
		v.Cover("local-shutdown")
	case 3: // local Close (go-away), later the server drops the connection
		l.closeCancel()
		vAcceptScript = []int{1}
		v.Cover("local-close-then-drop")
	case 4: // the caller's context ends
		cancel()
		vAcceptScript = []int{4}
		v.Cover("caller-cancelled")
	}
	conn, err := l.AcceptWithContext(ctx)
	switch cause {
	case 0, 1:
		v.Assert("C18/reconnect/reconnects-after-server-loss", vConnects == 1)
		v.Assert("C18/reconnect/keeps-accepting", err == nil && conn != nil && vAcceptCalls == 2)
	case 2, 3:
		v.Assert("C18/reconnect/local-close-returns-closed", errors.Is(err, ErrClosed) && vConnects == 0)
	case 4:
		v.Assert("C18/reconnect/caller-cancel-returned", errors.Is(err, context.Canceled) && vConnects == 0)
	}
}

// Harness_C18_reconnect_fails: the reconnect attempt itself fails with a
// non-retryable error: it is reported, not swallowed.
func Harness_C18_reconnect_fails() {
	v.Tag("client-yamux")
	vAcceptCalls, vConnects = 0, 0
	vConnectFails = true
	u := &Upstream{Logger: zap.NewNop()}
	vConnectFails = false
	ln, lerr := u.Listen(context.Background(), "e")
	v.Assert("C18/reconnect/listen-connects", lerr == nil && ln != nil)
	l := ln.(*listener)
	vConnects, vConnectFails = 0, true
	vAcceptScript = []int{3}
	_, err := l.AcceptWithContext(context.Background())
	v.Assert("C18/reconnect/connect-error-reported", err != nil && errors.Is(err, vErrConnect) && vConnects == 1)
	v.Cover("connect-fails")
}
