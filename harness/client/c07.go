//go:build verif

package client

import (
	"context"
	"errors"
	"net"

	"go.uber.org/zap"

	v "github.com/andydunstall/piko/zzverif"
	"github.com/andydunstall/piko/zzverif/vnet"
)

// The client forwarder's dial of the local service returns a model connection.
//
//gosym:stub (*net.Dialer).DialContext = vStubDialContext if client-fwd

var (
	vFwdConn  *vnet.Conn
	vFwdFail  bool
	vFwdAddrs []string
)

func vStubDialContext(d *net.Dialer, ctx context.Context, network, address string) (net.Conn, error) {
	vFwdAddrs = append(vFwdAddrs, network+" "+address)
	if vFwdFail {
		return nil, errors.New("connection refused")
	}
	return vFwdConn, nil
}

// Harness_C07_forward_client: the client library forwarder's handling of one
// tunnelled connection (Forwarder.forward: dial the address, pump both ways,
// release both).
func Harness_C07_forward_client() {
	v.Tag("client-fwd")
	M, L := v.Param("M", 2), v.Param("L", 2)
	svc, tunnel := &vnet.Conn{Name: "service"}, &vnet.Conn{Name: "tunnel"}
	ctx, cancel := context.WithCancel(context.Background())
	f := &Forwarder{ctx: ctx, addr: "localhost:9000", logger: zap.NewNop()}
	vFwdConn, vFwdAddrs = svc, nil
	vFwdFail = v.Choose("dial-fails", 2) == 1
	if vFwdFail {
		if v.Choose("cancelled", 2) == 1 {
			cancel()
		}
		f.forward(tunnel)
		v.Assert("C07/client/tunnel-released-when-dial-fails", tunnel.Closes >= 1)
		v.Cover("dial-failed")
		return
	}
	fromSvc := vnet.Script(svc, "svc", M, L)
	fromTunnel := vnet.Script(tunnel, "tunnel", M, L)
	vnet.Closer(svc, tunnel)

	f.forward(tunnel)

	v.Assert("C07/client/dials-its-address", len(vFwdAddrs) == 1 && vFwdAddrs[0] == "tcp localhost:9000")
	vnet.CheckPump("C07/client", svc, tunnel, fromSvc, fromTunnel)
	_ = cancel
}
