//go:build verif

// Package zzverif is the harness runtime. Under the gosym engine every
// function here is intercepted (symbolic inputs, assertions decided by the
// solver). Compiled natively, inputs are read from the replay file named by
// $GOSYM_REPLAY and assertions panic, so the same harness source replays a
// solver counterexample against the real build.
package zzverif

import (
	"encoding/json"
	"fmt"
	"math"
	"os"
	"runtime"
	"strconv"
	"strings"
	"testing"
	"time"
)

type replayFile struct {
	Harness string                 `json:"harness"`
	Label   string                 `json:"label"`
	Params  map[string]int         `json:"params"`
	Inputs  map[string]interface{} `json:"inputs"`
}

var (
	replay    replayFile
	nameCount = map[string]int{}
	Diverged  []string
)

type AssertFailed struct{ Label string }
type AssumeFailed struct{}

func lookup(name string) (interface{}, bool) {
	k := nameCount[name]
	nameCount[name] = k + 1
	full := fmt.Sprintf("%s#%d", name, k)
	consumed = append(consumed, full)
	v, ok := replay.Inputs[full]
	if !ok {
		Diverged = append(Diverged, full)
	}
	return v, ok
}

func u64(v interface{}) uint64 {
	switch x := v.(type) {
	case string:
		u, _ := strconv.ParseUint(x, 10, 64)
		return u
	case float64:
		return uint64(x)
	}
	return 0
}

func Bool(name string) bool {
	v, _ := lookup(name)
	b, _ := v.(bool)
	return b
}
func U64(name string) uint64 { v, _ := lookup(name); return u64(v) }
func I64(name string) int64  { v, _ := lookup(name); return int64(u64(v)) }
func U8(name string) uint8   { v, _ := lookup(name); return uint8(u64(v)) }
func F64(name string) float64 {
	v, _ := lookup(name)
	if s, ok := v.(string); ok {
		u, _ := strconv.ParseUint(strings.TrimPrefix(s, "0x"), 16, 64)
		return math.Float64frombits(u)
	}
	return 0
}
func Str(name string) string {
	v, _ := lookup(name)
	s, _ := v.(string)
	return s
}
func Int(name string, lo, hi int) int {
	v, _ := lookup(name)
	x := int(int64(u64(v)))
	if x < lo || x > hi {
		panic(AssumeFailed{})
	}
	return x
}
func Time(name string) time.Time {
	v, _ := lookup(name)
	return time.Unix(0, int64(u64(v)))
}
func Choose(name string, n int) int {
	v, _ := lookup(name)
	x := int(u64(v))
	if x < 0 || x >= n {
		panic(AssumeFailed{})
	}
	return x
}
func Assume(c bool) {
	if !c {
		panic(AssumeFailed{})
	}
}
func Assert(label string, c bool) {
	if !c {
		panic(AssertFailed{label})
	}
}
func Fail(label string)          { panic(AssertFailed{label}) }
func Cover(label string)         {}
func Class(name string, c bool)  {}
func Observe(name string, x any) { fmt.Printf("GOSYM-OBSERVE: %s=%v\n", name, x) }
func Symbolic() bool             { return false }
func ExpectPanic()               {}
func Tag(name string)            {}
func Param(name string, def int) int {
	if v, ok := replay.Params[name]; ok {
		return v
	}
	return def
}
func And(a, b bool) bool     { return a && b }
func Or(a, b bool) bool      { return a || b }
func Not(a bool) bool        { return !a }
func Implies(a, b bool) bool { return !a || b }
func IteU64(c bool, a, b uint64) uint64 {
	if c {
		return a
	}
	return b
}
func IteInt(c bool, a, b int) int {
	if c {
		return a
	}
	return b
}
func IteStr(c bool, a, b string) string {
	if c {
		return a
	}
	return b
}
func Dec(x uint64) string { return strconv.FormatUint(x, 10) }
func HeldLocks() int      { return 0 }

// Yield is a scheduling point of the engine's thread model.
func Yield() { runtime.Gosched() }

// WaitUntil blocks the calling goroutine until cond holds (cond must be
// side-effect free; in the engine it is evaluated by the scheduler).
func WaitUntil(cond func() bool) {
	for !cond() {
		runtime.Gosched()
	}
}
func LockLog() int { return 0 }
func Catch(f func()) (panicked bool) {
	defer func() {
		if r := recover(); r != nil {
			switch r.(type) {
			case AssertFailed, AssumeFailed:
				panic(r)
			}
			panicked = true
		}
	}()
	f()
	return false
}
func Concretize(x, lo, hi int) int { return x }

// Replay runs the harness named in $GOSYM_REPLAY and reports the outcome on
// stdout in a form the engine parses.
// runCases replays a batch of cases (translator validation): for each case it
// prints one line with the outcome and the input names the native run
// consumed, in order.
func runCases(t *testing.T, path string, harnesses map[string]func()) {
	b, err := os.ReadFile(path)
	if err != nil {
		t.Fatal(err)
	}
	var cases []replayFile
	if err := json.Unmarshal(b, &cases); err != nil {
		t.Fatal(err)
	}
	for i, c := range cases {
		replay = c
		nameCount = map[string]int{}
		Diverged = nil
		consumed = nil
		outcome := "completed"
		func() {
			defer func() {
				switch x := recover().(type) {
				case nil:
				case AssertFailed:
					outcome = "assert-failed:" + x.Label
				case AssumeFailed:
					outcome = "assume-failed"
				default:
					outcome = fmt.Sprintf("panic:%v", x)
				}
			}()
			h := harnesses[c.Harness]
			if h == nil {
				outcome = "unknown-harness"
				return
			}
			h()
		}()
		fmt.Printf("GOSYM-CASE %d outcome=%s diverged=%d consumed=%s\n", i, strings.ReplaceAll(outcome, " ", "_"), len(Diverged), strings.Join(consumed, ","))
	}
}

var consumed []string

func Replay(t *testing.T, harnesses map[string]func()) {
	if cases := os.Getenv("GOSYM_REPLAY_CASES"); cases != "" {
		runCases(t, cases, harnesses)
		return
	}
	path := os.Getenv("GOSYM_REPLAY")
	if path == "" {
		t.Skip("GOSYM_REPLAY not set")
	}
	b, err := os.ReadFile(path)
	if err != nil {
		t.Fatal(err)
	}
	if err := json.Unmarshal(b, &replay); err != nil {
		t.Fatal(err)
	}
	h := harnesses[replay.Harness]
	if h == nil {
		t.Fatalf("unknown harness %q", replay.Harness)
	}
	defer func() {
		if len(Diverged) > 0 {
			fmt.Printf("GOSYM-REPLAY: diverged missing=%v\n", Diverged)
		}
		r := recover()
		switch x := r.(type) {
		case nil:
			fmt.Println("GOSYM-REPLAY: completed")
		case AssertFailed:
			fmt.Printf("GOSYM-REPLAY: assert-failed label=%s\n", x.Label)
		case AssumeFailed:
			fmt.Println("GOSYM-REPLAY: assume-failed")
		default:
			fmt.Printf("GOSYM-REPLAY: panic %v\n", r)
		}
	}()
	h()
}

// CtxTimeout / CtxCancelled inspect engine contexts; natively they are not
// available (harnesses using them are engine-only).
func CtxTimeout(ctx any) (time.Duration, bool) { return 0, false }
func CtxCancelled(ctx any) bool                { return false }
