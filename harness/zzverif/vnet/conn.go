//go:build verif

// Package vnet is a model of one reliable byte-stream connection as seen from
// the piko side: what the peer sends is scripted, what piko writes is
// recorded, reads block (engine thread model) until data, the peer's close or
// a local close.
package vnet

import (
	"io"
	"net"
	"time"

	v "github.com/andydunstall/piko/zzverif"
)

type Conn struct {
	Name string
	// In: chunks the peer sends, in order. A Read returns (part of) the first
	// outstanding chunk.
	In [][]byte
	// PeerCloses: once In is drained the peer closes its end (Read returns
	// io.EOF). Otherwise a Read then blocks until the connection is closed
	// locally.
	PeerCloses bool
	// Out: every byte piko wrote, in order.
	Out []byte
	// Closes: number of local Close calls.
	Closes int
	// Reads / Writes: call counters.
	Reads, Writes int
	// WriteAfterClose: writes attempted after the local close.
	WriteAfterClose int
}

func (c *Conn) Read(p []byte) (int, error) {
	v.Yield()
	c.Reads++
	v.WaitUntil(func() bool { return c.Closes > 0 || len(c.In) > 0 || c.PeerCloses })
	if c.Closes > 0 {
		return 0, net.ErrClosed
	}
	if len(c.In) > 0 {
		n := copy(p, c.In[0])
		if n == len(c.In[0]) {
			c.In = c.In[1:]
		} else {
			c.In[0] = c.In[0][n:]
		}
		return n, nil
	}
	return 0, io.EOF
}

func (c *Conn) Write(p []byte) (int, error) {
	v.Yield()
	c.Writes++
	if c.Closes > 0 {
		c.WriteAfterClose++
		return 0, net.ErrClosed
	}
	c.Out = append(c.Out, p...)
	return len(p), nil
}

func (c *Conn) Close() error {
	v.Yield()
	c.Closes++
	return nil
}

type addr struct{}

func (addr) Network() string { return "vnet" }
func (addr) String() string  { return "vnet" }

func (c *Conn) LocalAddr() net.Addr                { return addr{} }
func (c *Conn) RemoteAddr() net.Addr               { return addr{} }
func (c *Conn) SetDeadline(t time.Time) error      { return nil }
func (c *Conn) SetReadDeadline(t time.Time) error  { return nil }
func (c *Conn) SetWriteDeadline(t time.Time) error { return nil }

// Pending returns the bytes of In not yet read.
func (c *Conn) Pending() int {
	n := 0
	for _, ch := range c.In {
		n += len(ch)
	}
	return n
}

// Script fills c with up to M chunks of 1..L symbolic bytes and returns
// everything the peer sends, in order.
func Script(c *Conn, tag string, M, L int) []byte {
	var all []byte
	n := v.Choose(tag+".chunks", M+1)
	for i := 0; i < n; i++ {
		l := 1 + v.Choose(tag+".len", L)
		ch := make([]byte, l)
		for j := range ch {
			ch[j] = v.U8(tag + ".byte")
		}
		c.In = append(c.In, ch)
		all = append(all, ch...)
	}
	return all
}

// Closer chooses which end(s) end the connection (at least one does,
// otherwise the tunnel legitimately stays open forever).
func Closer(a, b *Conn) {
	switch v.Choose("closer", 3) {
	case 0:
		a.PeerCloses = true
	case 1:
		b.PeerCloses = true
	case 2:
		a.PeerCloses, b.PeerCloses = true, true
	}
}

func isPrefix(tag string, got, want []byte) {
	v.Assert(tag+"/no-extra-bytes", len(got) <= len(want))
	for i := range got {
		if i < len(want) {
			v.Assert(tag+"/bytes-in-order-unmodified", got[i] == want[i])
		}
	}
}

// CheckPump: what must hold once a bidirectional pump between a and b has
// returned; fromA / fromB is what the peers of a / b sent.
func CheckPump(tag string, a, b *Conn, fromA, fromB []byte) {
	// both legs are released (so the peer of the other end observes
	// end-of-stream)
	v.Assert(tag+"/"+a.Name+"-leg-closed", a.Closes >= 1)
	v.Assert(tag+"/"+b.Name+"-leg-closed", b.Closes >= 1)
	// exactly once, in order, unmodified
	isPrefix(tag+"/to-"+a.Name, a.Out, fromB)
	isPrefix(tag+"/to-"+b.Name, b.Out, fromA)
	// everything a closing end sent before it closed arrives when the other
	// end stays open
	if b.PeerCloses && !a.PeerCloses {
		v.Assert(tag+"/all-bytes-reach-"+a.Name, len(a.Out) == len(fromB))
		v.Cover(b.Name + "-closes")
	}
	if a.PeerCloses && !b.PeerCloses {
		v.Assert(tag+"/all-bytes-reach-"+b.Name, len(b.Out) == len(fromA))
		v.Cover(a.Name + "-closes")
	}
	if a.PeerCloses && b.PeerCloses {
		v.Assert(tag+"/one-direction-complete", len(a.Out) == len(fromB) || len(b.Out) == len(fromA))
		v.Cover("both-close")
	}
}
