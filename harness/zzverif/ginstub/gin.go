//go:build verif

// Package ginstub replaces gin-gonic/gin for the engine: a gin.Context is an
// inert object whose methods record into a per-context State, and the router
// builder (New/Use/Group/GET/POST/Any/NoRoute) records an ordered event log.
//
// Contract relied upon (gin documentation): handlers registered with Use run
// before every handler registered afterwards on the same engine/group, in
// registration order; Abort* stops the chain; Next continues it; Param returns
// the named path parameter; Get/Set is a per-request key/value store.
package ginstub

import (
	"bufio"
	"net"
	"net/http"
	"net/url"

	"github.com/gin-gonic/gin"
)

//gosym:stub (*github.com/gin-gonic/gin.Context).Param = StubParam
//gosym:stub (*github.com/gin-gonic/gin.Context).Get = StubGet
//gosym:stub (*github.com/gin-gonic/gin.Context).Set = StubSet
//gosym:stub (*github.com/gin-gonic/gin.Context).JSON = StubJSON
//gosym:stub (*github.com/gin-gonic/gin.Context).Status = StubStatus
//gosym:stub (*github.com/gin-gonic/gin.Context).String = StubString
//gosym:stub (*github.com/gin-gonic/gin.Context).Next = StubNext
//gosym:stub (*github.com/gin-gonic/gin.Context).Abort = StubAbort
//gosym:stub (*github.com/gin-gonic/gin.Context).AbortWithStatus = StubAbortWithStatus
//gosym:stub (*github.com/gin-gonic/gin.Context).AbortWithStatusJSON = StubAbortWithStatusJSON
//gosym:stub (*github.com/gin-gonic/gin.Context).ClientIP = StubClientIP
//gosym:stub (*github.com/gin-gonic/gin.Context).FullPath = StubFullPath
//gosym:stub (*github.com/gin-gonic/gin.Context).GetQuery = StubGetQuery
//gosym:stub (*github.com/gin-gonic/gin.Context).Query = StubQuery
//gosym:stub github.com/gin-gonic/gin.New = StubNew
//gosym:stub github.com/gin-gonic/gin.CustomRecoveryWithWriter = StubRecovery
//gosym:stub (*github.com/gin-gonic/gin.Engine).Use = StubEngineUse
//gosym:stub (*github.com/gin-gonic/gin.Engine).NoRoute = StubEngineNoRoute
//gosym:stub (*github.com/gin-gonic/gin.RouterGroup).Group = StubGroup
//gosym:stub (*github.com/gin-gonic/gin.RouterGroup).Use = StubGroupUse
//gosym:stub (*github.com/gin-gonic/gin.RouterGroup).GET = StubGET
//gosym:stub (*github.com/gin-gonic/gin.RouterGroup).POST = StubPOST
//gosym:stub (*github.com/gin-gonic/gin.RouterGroup).Any = StubAny
//gosym:stub github.com/gin-gonic/gin.WrapH = StubWrapH
//gosym:stub github.com/gin-gonic/gin.WrapF = StubWrapF

// State is what a request context recorded.
type State struct {
	Params  map[string]string
	Keys    map[any]any
	Status  int // last status written through the context (0 = none)
	Aborted bool
	Nexts   int
	Writes  int
}

var states = map[*gin.Context]*State{}

// NewContext builds a context for request r writing to w.
func NewContext(r *http.Request, w gin.ResponseWriter) *gin.Context {
	c := &gin.Context{Request: r, Writer: w}
	states[c] = &State{Params: map[string]string{}, Keys: map[any]any{}}
	return c
}

func Of(c *gin.Context) *State {
	s := states[c]
	if s == nil {
		s = &State{Params: map[string]string{}, Keys: map[any]any{}}
		states[c] = s
	}
	return s
}

func StubParam(c *gin.Context, key string) string { return Of(c).Params[key] }
func StubGet(c *gin.Context, key any) (any, bool) {
	v, ok := Of(c).Keys[key]
	return v, ok
}
func StubSet(c *gin.Context, key any, val any)   { Of(c).Keys[key] = val }
func StubJSON(c *gin.Context, code int, obj any) { s := Of(c); s.Status = code; s.Writes++ }
func StubStatus(c *gin.Context, code int)        { Of(c).Status = code }
func StubString(c *gin.Context, code int, format string, values ...any) {
	s := Of(c)
	s.Status = code
	s.Writes++
}
func StubNext(c *gin.Context)  { Of(c).Nexts++ }
func StubAbort(c *gin.Context) { Of(c).Aborted = true }
func StubAbortWithStatus(c *gin.Context, code int) {
	s := Of(c)
	s.Aborted = true
	s.Status = code
}
func StubAbortWithStatusJSON(c *gin.Context, code int, obj any) {
	s := Of(c)
	s.Aborted = true
	s.Status = code
	s.Writes++
}
func StubClientIP(c *gin.Context) string { return "192.0.2.1" }
func StubFullPath(c *gin.Context) string { return "" }
func StubGetQuery(c *gin.Context, key string) (string, bool) {
	v, ok := Of(c).Params["?"+key]
	return v, ok
}
func StubQuery(c *gin.Context, key string) string { return Of(c).Params["?"+key] }

// ---------------------------------------------------------------------------
// router event log

type Event struct {
	Kind      string // use | route | noroute | group
	Engine    *gin.Engine
	Path      string
	Method    string
	Handler   gin.HandlerFunc
	NHandlers int
}

var (
	Events    []Event
	groupOf   = map[*gin.RouterGroup]*gin.Engine{}
	groupPath = map[*gin.RouterGroup]string{}
)

func Reset() {
	Events = nil
	states = map[*gin.Context]*State{}
	groupOf = map[*gin.RouterGroup]*gin.Engine{}
	groupPath = map[*gin.RouterGroup]string{}
}

func StubNew(opts ...gin.OptionFunc) *gin.Engine {
	e := &gin.Engine{}
	groupOf[&e.RouterGroup] = e
	groupPath[&e.RouterGroup] = ""
	return e
}

func StubRecovery(out any, handle gin.RecoveryFunc) gin.HandlerFunc {
	return func(c *gin.Context) {}
}

func StubEngineUse(e *gin.Engine, middleware ...gin.HandlerFunc) gin.IRoutes {
	for _, h := range middleware {
		Events = append(Events, Event{Kind: "use", Engine: e, Handler: h})
	}
	return e
}

func StubEngineNoRoute(e *gin.Engine, handlers ...gin.HandlerFunc) {
	for _, h := range handlers {
		Events = append(Events, Event{Kind: "noroute", Engine: e, Handler: h})
	}
}

func StubGroup(g *gin.RouterGroup, relativePath string, handlers ...gin.HandlerFunc) *gin.RouterGroup {
	ng := &gin.RouterGroup{}
	groupOf[ng] = groupOf[g]
	groupPath[ng] = groupPath[g] + relativePath
	for _, h := range handlers {
		Events = append(Events, Event{Kind: "use", Engine: groupOf[g], Path: groupPath[ng], Handler: h})
	}
	return ng
}

func StubGroupUse(g *gin.RouterGroup, middleware ...gin.HandlerFunc) gin.IRoutes {
	for _, h := range middleware {
		Events = append(Events, Event{Kind: "use", Engine: groupOf[g], Path: groupPath[g], Handler: h})
	}
	return g
}

func route(g *gin.RouterGroup, method, relativePath string, handlers []gin.HandlerFunc) gin.IRoutes {
	for _, h := range handlers {
		Events = append(Events, Event{Kind: "route", Engine: groupOf[g], Method: method, Path: groupPath[g] + relativePath, Handler: h, NHandlers: len(handlers)})
	}
	return g
}

func StubGET(g *gin.RouterGroup, relativePath string, handlers ...gin.HandlerFunc) gin.IRoutes {
	return route(g, "GET", relativePath, handlers)
}
func StubPOST(g *gin.RouterGroup, relativePath string, handlers ...gin.HandlerFunc) gin.IRoutes {
	return route(g, "POST", relativePath, handlers)
}
func StubAny(g *gin.RouterGroup, relativePath string, handlers ...gin.HandlerFunc) gin.IRoutes {
	return route(g, "ANY", relativePath, handlers)
}
func StubWrapH(h http.Handler) gin.HandlerFunc     { return func(c *gin.Context) {} }
func StubWrapF(f http.HandlerFunc) gin.HandlerFunc { return func(c *gin.Context) {} }

// ---------------------------------------------------------------------------

// IsAuthMiddleware probes a handler with a request carrying no credentials:
// the auth middleware (and only it) aborts such a request with 401.
func IsAuthMiddleware(h gin.HandlerFunc) bool {
	c := NewContext(&http.Request{Method: "GET", Header: http.Header{}, URL: &url.URL{Path: "/probe"}}, NewWriter())
	h(c)
	s := Of(c)
	return s.Aborted && s.Status == http.StatusUnauthorized
}

// AuthOrder summarises the event log of one engine: the index of the auth
// middleware's Use event (-1 if none), the index of the first route-like event
// (route / noroute / group-level use that is not the auth middleware), and
// the number of engines that received any event.
func AuthOrder() (authIdx, firstRoute, routes, engines int) {
	authIdx, firstRoute = -1, -1
	seen := map[*gin.Engine]bool{}
	for i, e := range Events {
		seen[e.Engine] = true
		switch e.Kind {
		case "use":
			if IsAuthMiddleware(e.Handler) {
				if authIdx < 0 {
					authIdx = i
				}
			}
		case "route", "noroute":
			routes++
			if firstRoute < 0 {
				firstRoute = i
			}
		}
	}
	return authIdx, firstRoute, routes, len(seen)
}

// Writer is a recording gin.ResponseWriter.
type Writer struct {
	H          http.Header
	Code       int
	HeaderSets int
	Body       int
	Hijacked   bool
}

func NewWriter() *Writer { return &Writer{H: http.Header{}} }

func (w *Writer) Header() http.Header         { return w.H }
func (w *Writer) Write(b []byte) (int, error) { w.Body += len(b); return len(b), nil }
func (w *Writer) WriteHeader(code int) {
	if w.Code == 0 {
		w.Code = code
	}
	w.HeaderSets++
}
func (w *Writer) WriteString(s string) (int, error) { w.Body += len(s); return len(s), nil }
func (w *Writer) Status() int                       { return w.Code }
func (w *Writer) Size() int                         { return w.Body }
func (w *Writer) Written() bool                     { return w.Code != 0 }
func (w *Writer) WriteHeaderNow()                   {}
func (w *Writer) Flush()                            {}
func (w *Writer) CloseNotify() <-chan bool          { return nil }
func (w *Writer) Pusher() http.Pusher               { return nil }
func (w *Writer) Hijack() (net.Conn, *bufio.ReadWriter, error) {
	w.Hijacked = true
	return nil, nil, nil
}

var _ gin.ResponseWriter = &Writer{}
