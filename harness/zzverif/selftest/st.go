//go:build verif

// Package selftest holds small programs with known verdicts. `gosym selftest`
// runs them through the same load / execute / solver path as the property
// checks and compares the set of reported labels with the expectation, so a
// regression of the engine (a monitor that stopped firing, an unsound
// simplification, a scheduler that lost interleavings) is caught before any
// property result is believed.
package selftest

import (
	"strconv"
	"sync"

	v "github.com/andydunstall/piko/zzverif"
	"github.com/andydunstall/piko/zzverif/vnet"
)

// ---- sequential, solver-decided ----

func ST_wraparound() {
	x := v.U64("x")
	v.Assert("ST/no-wrap", x+1 > x) // false for the maximum value only
}

func ST_bits_hold() {
	x := v.U64("x")
	v.Assert("ST/bit", x&1 == 0 || x&1 == 1)
	v.Assert("ST/shift", (x>>1)<<1 == x-(x&1))
	if x > 10 {
		v.Cover("big")
	} else {
		v.Cover("small")
	}
}

func ST_decimal_roundtrip() {
	n := v.U64("n")
	s := strconv.FormatUint(n, 10)
	m, err := strconv.ParseUint(s, 10, 64)
	v.Assert("ST/roundtrip", err == nil && m == n)
}

func ST_string_eq() {
	a, b := v.Str("a"), v.Str("b")
	v.Assume(a != b)
	v.Assert("ST/concat-differs", a+"x" != b+"x")
	v.Assert("ST/prefix-free", a+"x" != a) // holds
	v.Assert("ST/not-always", a+"x" != b)  // violated: b = a+"x"
}

func ST_map_slice() {
	m := map[string]int{}
	k := v.Str("k")
	m[k] = 1
	m["fixed"] = 2
	_, ok := m[k]
	v.Assert("ST/map-has", ok)
	delete(m, k)
	_, ok = m[k]
	v.Assert("ST/map-deleted", !ok)
	v.Assert("ST/len", len(m) == 1) // 0 when k == "fixed"
	var s []uint64
	for i := 0; i < 3; i++ {
		s = append(s, v.U64("e"))
	}
	sum := s[0] + s[1] + s[2]
	v.Assert("ST/sum-commutes", sum == s[2]+s[1]+s[0])
}

func ST_nil_map_panics() {
	var m map[string]int
	if v.Bool("write") {
		m["a"] = 1
	}
}

// ---- lock monitors, single goroutine ----

type box struct {
	mu sync.Mutex
	rw sync.RWMutex
	n  int
}

func ST_self_deadlock() {
	b := &box{}
	b.mu.Lock()
	b.mu.Lock()
}

func ST_lock_leak() {
	b := &box{}
	b.mu.Lock()
	b.n++
}

func ST_recursive_rlock() {
	b := &box{}
	b.rw.RLock()
	b.rw.RLock()
	b.rw.RUnlock()
	b.rw.RUnlock()
}

// ---- threads ----

func ST_race() {
	b := &box{}
	var wg sync.WaitGroup
	for i := 0; i < 2; i++ {
		wg.Add(1)
		go func() {
			defer wg.Done()
			b.n++ // unsynchronised
		}()
	}
	wg.Wait()
}

func ST_no_race_with_lock() {
	b := &box{}
	var wg sync.WaitGroup
	for i := 0; i < 2; i++ {
		wg.Add(1)
		go func() {
			defer wg.Done()
			b.mu.Lock()
			b.n++
			b.mu.Unlock()
		}()
	}
	wg.Wait()
	v.Assert("ST/count", b.n == 2)
	v.Cover("joined")
}

func ST_lost_update() {
	b := &box{}
	var wg sync.WaitGroup
	for i := 0; i < 2; i++ {
		wg.Add(1)
		go func() {
			defer wg.Done()
			b.mu.Lock()
			n := b.n
			b.mu.Unlock()
			b.mu.Lock()
			b.n = n + 1 // read and write are separate critical sections
			b.mu.Unlock()
		}()
	}
	wg.Wait()
	v.Assert("ST/lost-update", b.n == 2)
}

func ST_abba_deadlock() {
	a, b := &box{}, &box{}
	var wg sync.WaitGroup
	wg.Add(2)
	go func() {
		defer wg.Done()
		a.mu.Lock()
		b.mu.Lock()
		b.mu.Unlock()
		a.mu.Unlock()
	}()
	go func() {
		defer wg.Done()
		b.mu.Lock()
		a.mu.Lock()
		a.mu.Unlock()
		b.mu.Unlock()
	}()
	wg.Wait()
}

func ST_missing_done() {
	var wg sync.WaitGroup
	wg.Add(2)
	go func() { wg.Done() }()
	wg.Wait() // the second Done never comes
}

func ST_goroutine_panic() {
	var wg sync.WaitGroup
	wg.Add(1)
	go func() {
		defer wg.Done()
		var m map[string]int
		m["x"] = 1
	}()
	wg.Wait()
}

// ST_pump_ok: a correct bidirectional pump over two model connections.
func ST_pump_ok() {
	a, b := &vnet.Conn{Name: "a"}, &vnet.Conn{Name: "b"}
	fromA := vnet.Script(a, "a", 1, 2)
	fromB := vnet.Script(b, "b", 1, 2)
	vnet.Closer(a, b)
	pump(a, b, false)
	vnet.CheckPump("ST/pump", a, b, fromA, fromB)
}

// ST_pump_leak: one direction forgets to close its destination.
func ST_pump_leak() {
	a, b := &vnet.Conn{Name: "a"}, &vnet.Conn{Name: "b"}
	fromA := vnet.Script(a, "a", 1, 1)
	fromB := vnet.Script(b, "b", 1, 1)
	vnet.Closer(a, b)
	pump(a, b, true)
	vnet.CheckPump("ST/pump", a, b, fromA, fromB)
}

func pump(a, b *vnet.Conn, leak bool) {
	var wg sync.WaitGroup
	wg.Add(2)
	cp := func(dst, src *vnet.Conn, closeDst bool) {
		defer wg.Done()
		buf := make([]byte, 8)
		for {
			n, err := src.Read(buf)
			if n > 0 {
				if _, werr := dst.Write(buf[:n]); werr != nil {
					break
				}
			}
			if err != nil {
				break
			}
		}
		if closeDst {
			dst.Close()
		}
	}
	go cp(b, a, true)
	go cp(a, b, !leak)
	wg.Wait()
}
