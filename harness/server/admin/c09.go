//go:build verif

package admin

import (
	"github.com/gin-gonic/gin"

	"github.com/andydunstall/piko/pkg/auth"
	"github.com/andydunstall/piko/pkg/log"
	"github.com/andydunstall/piko/server/cluster"
	v "github.com/andydunstall/piko/zzverif"
	"github.com/andydunstall/piko/zzverif/ginstub"
)

type vStatusHandler struct{}

func (h *vStatusHandler) Register(group *gin.RouterGroup) {
	group.GET("/x", func(c *gin.Context) {})
}

// Harness_C09_order_admin: on the admin port the auth middleware precedes the
// forward interceptor and every route: health, ready, metrics, pprof, and the
// status routes added later through AddStatus.
func Harness_C09_order_admin() {
	ginstub.Reset()
	withAuth := v.Choose("auth", 2) == 1
	var ver *auth.MultiTenantVerifier
	if withAuth {
		ver = auth.NewMultiTenantVerifier(nil, nil)
	}
	var cs *cluster.State
	if v.Choose("cluster", 2) == 1 {
		cs = cluster.NewState(&cluster.Node{ID: "local"}, log.NewNopLogger())
	}
	s := NewServer(cs, nil, ver, nil, log.NewNopLogger())
	s.AddStatus("/cluster", &vStatusHandler{})
	authIdx, firstRoute, routes, engines := ginstub.AuthOrder()
	v.Assert("C09/order/admin/one-engine", engines == 1)
	v.Assert("C09/order/admin/routes-registered", routes >= 15 && firstRoute >= 0)
	// every other middleware (forward interceptor) also comes after the auth middleware
	firstOtherUse := -1
	for i, e := range ginstub.Events {
		if e.Kind == "use" && i > 0 && !ginstub.IsAuthMiddleware(e.Handler) && firstOtherUse < 0 {
			firstOtherUse = i
		}
	}
	if withAuth {
		v.Assert("C09/order/admin/auth-before-every-route", authIdx >= 0 && authIdx < firstRoute)
		if firstOtherUse >= 0 {
			v.Assert("C09/order/admin/auth-before-forwarding", authIdx < firstOtherUse)
			v.Cover("admin-forward-interceptor")
		}
		v.Cover("admin-auth")
	} else {
		v.Assert("C09/order/admin/no-auth-without-verifier", authIdx == -1)
		v.Cover("admin-open")
	}
}
