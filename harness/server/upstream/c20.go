//go:build verif

package upstream

import (
	"strconv"
	"time"

	"github.com/andydunstall/yamux"

	pkggossip "github.com/andydunstall/piko/pkg/gossip"
	"github.com/andydunstall/piko/pkg/log"
	"github.com/andydunstall/piko/server/cluster"
	servergossip "github.com/andydunstall/piko/server/gossip"
	v "github.com/andydunstall/piko/zzverif"
)

// vNode wires the shared state of one server node exactly as server.go does:
// registry -> routing table -> syncer -> gossip state, and the gossip state's
// watcher is the syncer.
type vNode struct {
	m  *LoadBalancedManager
	cs *cluster.State
	sy *servergossip.VerifSyncer
	gs *pkggossip.VerifClusterState
}

func vNewNode() *vNode {
	n := &vNode{}
	n.cs = cluster.NewState(&cluster.Node{ID: "local", ProxyAddr: "p:1", AdminAddr: "a:1"}, log.NewNopLogger())
	n.m = NewLoadBalancedManager(n.cs, nil)
	n.sy = servergossip.VerifNewSyncer(n.cs)
	n.gs = pkggossip.VerifNewClusterState("local", "g:1", &pkggossip.VerifDetector{Levels: map[string]float64{}}, n.sy)
	n.sy.Sync(n.gs)
	return n
}

// vRemoteDelta fabricates a delta a remote node "r" could send: addresses,
// an endpoint upsert or delete, a left marker or a compaction marker.
func vRemoteDelta(ver uint64) pkggossip.VerifDelta {
	var es []pkggossip.Entry
	switch v.Choose("remote.kind", 5) {
	case 0:
		es = append(es, pkggossip.Entry{Key: "proxy_addr", Value: "p:2", Version: ver}, pkggossip.Entry{Key: "admin_addr", Value: "a:2", Version: ver + 1})
	case 1:
		es = append(es, pkggossip.Entry{Key: "endpoint:e0", Value: v.Dec(v.U64("n")), Version: ver})
	case 2:
		es = append(es, pkggossip.Entry{Key: "endpoint:e0", Version: ver, Deleted: true})
	case 3:
		es = append(es, pkggossip.Entry{Key: pkggossip.VerifLeftKey, Version: ver, Internal: true})
	case 4:
		es = append(es, pkggossip.Entry{Key: pkggossip.VerifCompactKey, Value: v.Dec(v.U64("c")), Version: ver, Internal: true})
	}
	return vMkDelta("r", es)
}

func vMkDelta(id string, es []pkggossip.Entry) pkggossip.VerifDelta {
	return pkggossip.VerifMakeDelta(id, "g:2", es)
}

// Harness_C20_ops: every operation the goroutines of a running node perform
// on the shared state, each from a state with some upstreams registered and a
// remote node in an arbitrary stage (unknown / pending / promoted). The
// engine's lock recorder checks on every feasible path: no re-acquisition of a
// held mutex, matching unlocks, nothing held at return, guarded fields only
// touched with their mutex held, and (over all paths) an acyclic lock order.
func Harness_C20_ops() {
	n := vNewNode()
	ups := []*vUp{{id: 0, ep: "e0"}, {id: 1, ep: "e0"}, {id: 2, ep: "e1"}}
	for i := 0; i < v.Choose("registered", len(ups)+1); i++ {
		n.m.AddConn(ups[i])
	}
	// remote node stage
	ver := uint64(1)
	switch v.Choose("remote.stage", 3) {
	case 1: // pending: joined, one address known
		n.gs.VerifApplyDelta(vMkDelta("r", []pkggossip.Entry{{Key: "proxy_addr", Value: "p:2", Version: 1}}))
		ver = 2
	case 2: // promoted with an endpoint
		n.gs.VerifApplyDelta(vMkDelta("r", []pkggossip.Entry{{Key: "proxy_addr", Value: "p:2", Version: 1}, {Key: "admin_addr", Value: "a:2", Version: 2}, {Key: "endpoint:e0", Value: "3", Version: 3}}))
		ver = 4
	}

	held := v.HeldLocks()
	v.Assert("C20/setup-releases-locks", held == 0)
	// from here on the node is "running": the routing table's local endpoint
	// counters may only be changed under the registry mutex (lock recorder rule)
	v.Tag("serialised")
	switch v.Choose("op", 18) {
	case 17: // remote-endpoint subscribers run without the routing table's
		// lock, so a subscriber may read the table it is told about (the
		// update and the removal path each notify on their own)
		calls := 0
		n.cs.OnRemoteEndpointUpdate(func(nodeID string, endpointID string) {
			calls++
			v.Assert("C20/subscriber-called-without-table-lock", v.HeldLocks() == 0)
			_, _ = n.cs.LookupEndpoint(endpointID)
			_, _ = n.cs.Node(nodeID)
		})
		want := 0
		if n.cs.UpdateRemoteEndpoint("r", "e0", v.Int("listeners", 1, 9)) {
			want++
		}
		if n.cs.RemoveRemoteEndpoint("r", "e0") {
			want++
		}
		v.Assert("C20/subscriber-notified", calls == want)
		v.Cover("reentrant-subscriber")
	case 16: // upstream server session bookkeeping (handlers, rebalance task, status reads)
		srv := &Server{sessions: map[*yamux.Session]struct{}{}, cluster: n.cs, logger: log.NewNopLogger()}
		s1, s2 := &yamux.Session{}, &yamux.Session{}
		srv.addSession(s1)
		srv.addSession(s2)
		_ = srv.openSessions()
		srv.shedSessions(v.Int("shed", 0, 3))
		srv.removeSession(s1)
		srv.Rebalance()
		v.Cover("sessions")
	case 0:
		u, ok := n.m.Select("e"+strconv.Itoa(v.Choose("ep", 3)), v.Choose("allow", 2) == 1)
		if ok && u != nil && !u.Forward() {
			v.Cover("select-local")
		}
		if ok && u != nil && u.Forward() {
			v.Cover("select-remote")
		}
	case 1:
		n.m.AddConn(&vUp{id: 50, ep: "e" + strconv.Itoa(v.Choose("ep", 3))})
	case 2:
		n.m.RemoveConn(ups[v.Choose("u", len(ups))])
	case 3:
		_ = n.m.Endpoints()
	case 4:
		_, _ = n.cs.Node("r")
		_ = n.cs.LocalNode()
		_ = n.cs.Nodes()
		_ = n.cs.NodesMetadata()
		_ = n.cs.AvgConns()
		_ = n.cs.LocalEndpointListeners("e0")
		_, _ = n.cs.LookupEndpoint("e0")
	case 5: // incoming gossip delta (packet / stream listener goroutines)
		n.gs.VerifApplyDelta(vRemoteDelta(ver))
		v.Cover("gossip-delta")
	case 6: // incoming digest
		n.gs.VerifApplyDigest(pkggossip.VerifMakeDigest("r2", "g:3", v.U64("dv"), v.Bool("dleft")))
	case 7: // liveness task
		n.gs.VerifDetector().Levels["r"] = v.F64("level")
		n.gs.VerifUpdateLiveness(v.F64("threshold"))
		v.Cover("liveness")
	case 8: // expiry task
		n.gs.RemoveExpiredAt(v.Time("sweep"))
	case 9: // compaction task
		n.gs.VerifCompactLocal(v.Int("threshold", 0, 3))
	case 10: // gossip round: digest + delta generation, status reads
		dg := n.gs.Digest()
		_ = n.gs.Delta(dg, v.Choose("full", 2) == 1)
		_ = n.gs.LocalDelta()
		_ = n.gs.Nodes()
		_ = n.gs.LiveNodes()
		_ = n.gs.UnreachableNodes()
		_, _ = n.gs.Node("r")
		_ = n.gs.LocalNode()
		_ = n.gs.LocalNodeMetadata()
	case 11: // leave
		n.gs.VerifLeaveLocal()
	case 12: // unreachable then expiry of the remote node through the watcher
		n.gs.VerifDetector().Levels["r"] = 100
		n.gs.VerifUpdateLiveness(20)
		n.gs.RemoveExpiredAt(time.Now().Add(2 * time.Hour))
		v.Cover("expire-through-watcher")
	case 13: // routing-table writers used by the syncer
		n.cs.UpdateRemoteStatus("r", cluster.NodeStatusUnreachable)
		n.cs.UpdateRemoteEndpoint("r", "e0", v.Int("listeners", 0, 9))
		n.cs.RemoveRemoteEndpoint("r", "e0")
		n.cs.RemoveNode("r")
	case 14: // subscriptions
		n.cs.OnLocalEndpointUpdate(func(string) {})
		n.cs.OnRemoteEndpointUpdate(func(string, string) {})
		n.m.AddConn(&vUp{id: 60, ep: "e9"})
	case 15: // real failure detector
		d := pkggossip.VerifNewDetector(time.Second, 3)
		d.ReportWithTimestamp("x", v.Time("t0"))
		_ = d.SuspicionLevelAt("x", v.Time("t1"))
		_ = d.SuspicionLevelAt("y", v.Time("t2"))
		d.Remove("x")
	}
	v.Assert("C20/op-releases-locks", v.HeldLocks() == 0)

	// quiescent consistency: registry == routing table == published state
	for _, id := range []string{"e0", "e1", "e2", "e9"} {
		reg := 0
		if lb, ok := n.m.localUpstreams[id]; ok {
			reg = len(lb.upstreams)
		}
		v.Assert("C20/quiescent/registry-eq-table", reg == n.cs.LocalEndpointListeners(id))
	}
}
