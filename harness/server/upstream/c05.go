//go:build verif

package upstream

import (
	"strconv"

	pkggossip "github.com/andydunstall/piko/pkg/gossip"
	"github.com/andydunstall/piko/pkg/log"
	"github.com/andydunstall/piko/server/cluster"
	servergossip "github.com/andydunstall/piko/server/gossip"
	v "github.com/andydunstall/piko/zzverif"
)

// vWorld is the real registry + real routing table + real syncer + real
// gossip state, wired the way server.go wires them.
type vWorld struct {
	m   *LoadBalancedManager
	cs  *cluster.State
	gs  *pkggossip.VerifClusterState
	ids []string
	ups [][]*vUp
}

func vEndpointIDs(E int) []string {
	ids := make([]string, E)
	if v.Param("symids", 0) == 1 {
		for i := range ids {
			ids[i] = v.Str("ep")
			for j := 0; j < i; j++ {
				v.Assume(ids[i] != ids[j])
			}
		}
		return ids
	}
	for i := range ids {
		ids[i] = "e" + strconv.Itoa(i)
	}
	return ids
}

func vNewWorld(E int) *vWorld {
	w := &vWorld{}
	w.cs = cluster.NewState(&cluster.Node{ID: "local", ProxyAddr: "p:1", AdminAddr: "a:1"}, log.NewNopLogger())
	w.m = NewLoadBalancedManager(w.cs, nil)
	w.gs = pkggossip.VerifNewClusterState("local", "g:1", &pkggossip.VerifDetector{Levels: map[string]float64{}}, nil)
	sy := servergossip.VerifNewSyncer(w.cs)
	sy.Sync(w.gs)
	w.ids = vEndpointIDs(E)
	w.ups = make([][]*vUp, E)
	return w
}

func (w *vWorld) add(e int) *vUp {
	u := &vUp{id: len(w.ups[e]), ep: w.ids[e]}
	w.ups[e] = append(w.ups[e], u)
	w.m.AddConn(u)
	return u
}

// published returns the upstream count the node publishes for endpoint id
// through gossip (0 if the key is absent or deleted).
func (w *vWorld) published(id string) (int, bool) {
	n := 0
	seen := 0
	for _, e := range w.gs.LocalNode().Entries {
		if e.Key == "endpoint:"+id {
			seen++
			if !e.Deleted {
				c, err := strconv.Atoi(e.Value)
				if err != nil {
					return 0, false
				}
				n = c
			}
		}
	}
	return n, seen <= 1
}

// registered counts the upstream objects registered for id.
func (w *vWorld) registered(id string) int {
	lb, ok := w.m.localUpstreams[id]
	if !ok {
		return 0
	}
	return len(lb.upstreams)
}

// checkI5 asserts registry == routing table == published gossip state.
func (w *vWorld) checkI5(tag string, extraIDs ...string) {
	ids := append(append([]string(nil), w.ids...), extraIDs...)
	for _, id := range ids {
		reg := w.registered(id)
		adv := w.cs.LocalEndpointListeners(id)
		pub, ok := w.published(id)
		v.Assert("C05/"+tag+"/registry-eq-cluster", reg == adv)
		v.Assert("C05/"+tag+"/published-wellformed", ok)
		v.Assert("C05/"+tag+"/cluster-eq-published", adv == pub)
		lb, present := w.m.localUpstreams[id]
		if present {
			v.Assert("C05/"+tag+"/no-empty-balancer", len(lb.upstreams) > 0)
			for i := range lb.upstreams {
				for j := i + 1; j < len(lb.upstreams); j++ {
					v.Assert("C05/"+tag+"/no-duplicate", lb.upstreams[i] != lb.upstreams[j])
				}
			}
		}
		eps := w.m.Endpoints()
		v.Assert("C05/"+tag+"/endpoints-map", eps[id] == reg)
	}
}

// Harness_C05_step: one arbitrary AddConn/RemoveConn (of a registered or an
// unregistered upstream, of a known or unknown endpoint) from an arbitrary
// consistent state with up to E endpoints x U upstreams.
func Harness_C05_step() {
	E := v.Param("E", 2)
	U := v.Param("U", 2)
	w := vNewWorld(E)
	for e := 0; e < E; e++ {
		c := v.Choose("count", U+1)
		for i := 0; i < c; i++ {
			w.add(e)
		}
		if lb, ok := w.m.localUpstreams[w.ids[e]]; ok {
			lb.nextIndex = v.Int("next", 0, 64)
			v.Assume(vLBInv(lb))
		}
	}
	w.checkI5("pre")

	switch v.Choose("op", 4) {
	case 0: // connect a fresh upstream
		e := v.Choose("e", E)
		w.add(e)
		v.Cover("add")
	case 1: // disconnect a registered upstream
		e := v.Choose("e", E)
		if len(w.ups[e]) == 0 {
			return
		}
		k := v.Choose("k", len(w.ups[e]))
		w.m.RemoveConn(w.ups[e][k])
		if len(w.ups[e]) > 1 {
			v.Cover("remove-with-sibling")
		} else {
			v.Cover("remove-last")
		}
	case 2: // repeated / late removal: an upstream object that is NOT registered
		e := v.Choose("e", E)
		ghost := &vUp{id: 99, ep: w.ids[e]}
		v.Class("D1", len(w.ups[e]) > 0)
		w.m.RemoveConn(ghost)
		if len(w.ups[e]) > 0 {
			v.Cover("late-remove-with-sibling")
		} else {
			v.Cover("late-remove-no-sibling")
		}
	case 3: // removal for an endpoint nobody registered
		ghost := &vUp{id: 98, ep: "unknown-endpoint"}
		w.m.RemoveConn(ghost)
		w.checkI5("post", "unknown-endpoint")
		v.Cover("remove-unknown-endpoint")
		return
	}
	w.checkI5("post")
}

// Harness_C05_hist: K-operation histories from the constructors, including
// the go-away sequence (proxy drops the upstream, the handler's deferred
// removal arrives later).
func Harness_C05_hist() {
	E := v.Param("E", 2)
	K := v.Param("K", 4)
	w := vNewWorld(E)
	var removed []*vUp
	for step := 0; step < K; step++ {
		switch v.Choose("op", 3) {
		case 0:
			w.add(v.Choose("e", E))
		case 1:
			e := v.Choose("e", E)
			if len(w.ups[e]) == 0 {
				return
			}
			k := v.Choose("k", len(w.ups[e]))
			u := w.ups[e][k]
			w.m.RemoveConn(u)
			w.ups[e] = append(append([]*vUp(nil), w.ups[e][:k]...), w.ups[e][k+1:]...)
			removed = append(removed, u)
		case 2:
			if len(removed) == 0 {
				return
			}
			k := v.Choose("r", len(removed))
			w.m.RemoveConn(removed[k]) // duplicated removal
			v.Cover("duplicate-removal")
		}
		for e := 0; e < E; e++ {
			v.Assert("C05/hist/registered-eq-model", w.registered(w.ids[e]) == len(w.ups[e]))
		}
		w.checkI5("hist")
	}
}
