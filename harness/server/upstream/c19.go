//go:build verif

package upstream

import (
	"math"
	"strconv"

	"github.com/andydunstall/yamux"

	"github.com/andydunstall/piko/pkg/log"
	"github.com/andydunstall/piko/server/cluster"
	"github.com/andydunstall/piko/server/config"
	v "github.com/andydunstall/piko/zzverif"
)

// Summaries used by Harness_C19_arith only (tag "c19-cut"): the number of
// open sessions is an arbitrary symbolic value and shedding just records the
// request, so that the arithmetic of Rebalance is explored for connection
// counts far beyond what a concrete session map could hold.
//
//gosym:stub (*github.com/andydunstall/piko/server/upstream.Server).openSessions = vStubOpenSessions if c19-cut
//gosym:stub (*github.com/andydunstall/piko/server/upstream.Server).shedSessions = vStubShedSessions if c19-cut

var (
	vLocalConns int
	vShedCalls  int
	vShedN      int
)

func vStubOpenSessions(s *Server) int { return vLocalConns }
func vStubShedSessions(s *Server, n int) {
	vShedCalls++
	vShedN = n
}

const vMaxConns = 1 << 20

// vBuildCluster builds a routing table with the local node and up to N remote
// nodes with symbolic statuses and per-endpoint connection counts. Returns
// the oracle values: number of active nodes and total active connections.
func vBuildCluster(N, E int, localConns int) (*cluster.State, int, int) {
	local := &cluster.Node{ID: "local", ProxyAddr: "p", AdminAddr: "a", Endpoints: map[string]int{}}
	// the local node's advertised counts add up to its open connections
	rest := localConns
	for e := 0; e < E-1; e++ {
		c := v.Int("local.conns", 0, vMaxConns)
		v.Assume(c <= rest)
		if v.Choose("local.ep.present", 2) == 1 {
			local.Endpoints["e"+strconv.Itoa(e)] = c
			rest -= c
		}
	}
	local.Endpoints["e"+strconv.Itoa(E-1)] = rest
	cs := cluster.NewState(local, log.NewNopLogger())
	active := 1
	total := localConns
	n := v.Choose("remotes", N+1)
	for i := 0; i < n; i++ {
		node := &cluster.Node{ID: "r" + strconv.Itoa(i), ProxyAddr: "p", AdminAddr: "a", Endpoints: map[string]int{}}
		switch v.Choose("status", 3) {
		case 0:
			node.Status = cluster.NodeStatusActive
		case 1:
			node.Status = cluster.NodeStatusUnreachable
		case 2:
			node.Status = cluster.NodeStatusLeft
		}
		sum := 0
		for e := 0; e < E; e++ {
			if v.Choose("ep.present", 2) == 1 {
				c := v.Int("conns", 0, vMaxConns)
				node.Endpoints["e"+strconv.Itoa(e)] = c
				sum += c
			}
		}
		if node.Status == cluster.NodeStatusActive {
			active++
			total += sum
		}
		cs.AddNode(node)
	}
	return cs, active, total
}

// Harness_C19_arith: the real Rebalance() arithmetic for arbitrary
// configuration and connection distribution.
func Harness_C19_arith() {
	v.Tag("c19-cut")
	if v.Choose("maporder", 2) == 1 {
		v.Tag("maporder-reverse")
	}
	N := v.Param("N", 2)
	E := v.Param("E", 1)
	vLocalConns = v.Int("localConns", 0, vMaxConns)
	vShedCalls, vShedN = 0, 0
	cs, active, total := vBuildCluster(N, E, vLocalConns)
	known := len(cs.Nodes())

	rc := config.RebalanceConfig{Threshold: v.F64("threshold"), ShedRate: v.F64("shedRate"), MinConns: uint(v.Int("minConns", 0, vMaxConns))}
	v.Assume(rc.Validate() == nil)
	// Rebalance only runs when enabled (server.go: Threshold != 0); NaN settings are outside the claim
	v.Assume(v.And(rc.Threshold == rc.Threshold, rc.ShedRate == rc.ShedRate))
	v.Assume(rc.Threshold != 0)
	// (the real constructor: the configuration reaches Rebalance the way it does in the server)
	s := NewServer(nil, nil, nil, cs, config.UpstreamConfig{Rebalance: rc}, log.NewNopLogger())

	avg := total / active // the oracle: average over ACTIVE nodes, to whole connections
	v.Assert("C19/avg-matches-oracle", cs.AvgConns() == avg)

	s.Rebalance()

	v.Assert("C19/at-most-one-shed-request", vShedCalls <= 1)
	if vShedCalls == 0 {
		v.Cover("no-shed")
		return
	}
	v.Cover("shed")
	v.Assert("C19/shed-only-with-other-nodes", known > 1)
	v.Assert("C19/shed-only-with-conns", vLocalConns >= 1)
	v.Assert("C19/shed-only-above-min", vLocalConns >= int(rc.MinConns))
	v.Assert("C19/shed-only-above-average", vLocalConns > avg)
	balance := float64(vLocalConns-avg) / float64(avg)
	v.Assert("C19/shed-only-above-threshold", balance >= rc.Threshold)
	// the requested number never exceeds ceil(avg * shedRate), is a valid
	// int, and shedSessions turns anything below 1 into exactly 1
	limit := math.Ceil(float64(avg) * rc.ShedRate)
	v.Assert("C19/shed-request-is-valid-int", vShedN >= 0 && vShedN <= vMaxConns)
	v.Assert("C19/shed-within-rate", float64(vShedN) <= limit)
	v.Assert("C19/shed-within-rate-int", vShedN <= avg)
	if avg == 0 {
		v.Cover("zero-average")
	}
}

// Harness_C19_shed: the real shedSessions/openSessions on a concrete session
// map: closes exactly min(max(n,1), open) distinct sessions and keeps the map
// for the handlers to clean up.
func Harness_C19_shed() {
	M := v.Param("M", 3)
	m := v.Choose("open", M+1)
	s := &Server{sessions: map[*yamux.Session]struct{}{}, logger: log.NewNopLogger()}
	var all []*yamux.Session
	for i := 0; i < m; i++ {
		sess := &yamux.Session{}
		all = append(all, sess)
		s.addSession(sess)
	}
	v.Assert("C19/shed/open-count", s.openSessions() == m)
	n := v.Int("n", -4, 8)
	vClosed = nil
	s.shedSessions(n)
	want := n
	if want < 1 {
		want = 1
	}
	if want > m {
		want = m
	}
	v.Assert("C19/shed/closes-min-max", len(vClosed) == want)
	for i := range vClosed {
		for j := i + 1; j < len(vClosed); j++ {
			v.Assert("C19/shed/distinct", vClosed[i] != vClosed[j])
		}
		member := false
		for _, a := range all {
			member = member || a == vClosed[i]
		}
		v.Assert("C19/shed/only-open-sessions", member)
	}
	v.Assert("C19/shed/map-untouched", s.openSessions() == m)
	if m > 0 {
		v.Cover("shed-some")
	}
}

// yamux session Close is recorded (the real one needs a live connection).
//
//gosym:stub (*github.com/andydunstall/yamux.Session).Close = vStubSessionClose

var vClosed []*yamux.Session

func vStubSessionClose(s *yamux.Session) error {
	vClosed = append(vClosed, s)
	return nil
}
