//go:build verif

package upstream

import (
	"net"

	v "github.com/andydunstall/piko/zzverif"
)

// vUp is a harness upstream object (identity = pointer).
type vUp struct {
	id int
	ep string
}

func (u *vUp) EndpointID() string      { return u.ep }
func (u *vUp) Dial() (net.Conn, error) { return nil, nil }
func (u *vUp) Forward() bool           { return false }

// vBuildLB builds a balancer with n distinct upstreams and a symbolic cursor
// satisfying the cursor invariant.
func vBuildLB(n int) (*loadBalancer, []*vUp) {
	lb := &loadBalancer{}
	ups := make([]*vUp, n)
	for i := 0; i < n; i++ {
		ups[i] = &vUp{id: i, ep: "e"}
		lb.upstreams = append(lb.upstreams, ups[i])
	}
	lb.nextIndex = v.Int("next", 0, 64)
	v.Assume(vLBInv(lb))
	return lb, ups
}

// vLBInv: cursor invariant. An empty balancer only exists freshly created
// (cursor 0); otherwise 0 <= nextIndex < n.
func vLBInv(lb *loadBalancer) bool {
	n := len(lb.upstreams)
	if n == 0 {
		return lb.nextIndex == 0
	}
	return lb.nextIndex >= 0 && lb.nextIndex < n
}

func vIndexOf(lb *loadBalancer, u Upstream) int {
	for i := range lb.upstreams {
		if lb.upstreams[i] == u {
			return i
		}
	}
	return -1
}

// Harness_C15_lb_step: one arbitrary operation on an arbitrary
// invariant-satisfying balancer.
func Harness_C15_lb_step() {
	N := v.Param("N", 3)
	n := v.Choose("n", N+1)
	lb, ups := vBuildLB(n)
	before := append([]Upstream(nil), lb.upstreams...)
	oldNext := lb.nextIndex

	switch v.Choose("op", 4) {
	case 0: // Add a fresh upstream
		u := &vUp{id: 100, ep: "e"}
		lb.Add(u)
		v.Assert("C15/add-len", len(lb.upstreams) == n+1)
		for i := 0; i < n; i++ {
			v.Assert("C15/add-order", lb.upstreams[i] == before[i])
		}
		v.Assert("C15/add-last", lb.upstreams[n] == Upstream(u))
		if n > 0 {
			v.Assert("C15/add-cursor", lb.nextIndex == oldNext)
		}
		v.Cover("add")
	case 1: // Remove a member (any position, including the cursor and the last slot)
		if n == 0 {
			return
		}
		k := v.Choose("k", n)
		empty := lb.Remove(ups[k])
		v.Assert("C15/remove-empty-flag", empty == (n == 1))
		v.Assert("C15/remove-len", len(lb.upstreams) == n-1)
		j := 0
		for i := 0; i < n; i++ {
			if i == k {
				continue
			}
			v.Assert("C15/remove-order", lb.upstreams[j] == before[i])
			j++
		}
		v.Assert("C15/remove-gone", vIndexOf(lb, ups[k]) == -1)
		if k == n-1 {
			v.Cover("remove-last-slot")
		}
		if n > 1 {
			v.Cover("remove-keeps-some")
		}
	case 2: // Remove a non-member
		u := &vUp{id: 101, ep: "e"}
		empty := lb.Remove(u)
		v.Assert("C15/remove-unknown-flag", empty == (n == 0))
		v.Assert("C15/remove-unknown-len", len(lb.upstreams) == n)
		for i := 0; i < n; i++ {
			v.Assert("C15/remove-unknown-order", lb.upstreams[i] == before[i])
		}
		v.Cover("remove-unknown")
	case 3: // Next
		u := lb.Next()
		if n == 0 {
			v.Assert("C15/next-empty", u == nil)
			return
		}
		v.Assert("C15/next-member", vIndexOf(lb, u) >= 0)
		v.Assert("C15/next-is-cursor", u == before[oldNext])
		v.Assert("C15/next-advances", lb.nextIndex == (oldNext+1)%n)
		v.Cover("next")
	}
	if len(lb.upstreams) > 0 {
		v.Assert("C15/cursor-inv", vLBInv(lb))
	}
}

// Harness_C15_fair: from any invariant state with n >= 1, n consecutive
// selections return n pairwise different members.
func Harness_C15_fair() {
	N := v.Param("N", 3)
	n := 1 + v.Choose("n", N)
	lb, _ := vBuildLB(n)
	got := make([]Upstream, n)
	for i := 0; i < n; i++ {
		got[i] = lb.Next()
		v.Assert("C15/fair-member", vIndexOf(lb, got[i]) >= 0)
	}
	for i := 0; i < n; i++ {
		for j := i + 1; j < n; j++ {
			v.Assert("C15/fair-distinct", got[i] != got[j])
		}
	}
	v.Cover("fair")
}
