//go:build verif

package upstream

import (
	"strconv"

	"github.com/andydunstall/piko/pkg/log"
	"github.com/andydunstall/piko/server/cluster"
	v "github.com/andydunstall/piko/zzverif"
)

// Harness_C15_select: manager-level selection over two endpoints with local
// upstreams and remote nodes in arbitrary states. Select returns only an
// upstream currently registered for exactly that endpoint; a request that may
// not be forwarded never receives a remote node; a removed upstream is never
// returned again; n consecutive selections over n local upstreams return each
// of them once.
func Harness_C15_select() {
	cs := cluster.NewState(&cluster.Node{ID: "local", ProxyAddr: "p", AdminAddr: "a"}, log.NewNopLogger())
	m := NewLoadBalancedManager(cs, nil)
	eps := []string{"e0", "e1"}
	var ups [2][]*vUp
	for e := range eps {
		n := v.Choose("local."+eps[e], v.Param("U", 2)+1)
		for i := 0; i < n; i++ {
			u := &vUp{id: 10*e + i, ep: eps[e]}
			ups[e] = append(ups[e], u)
			m.AddConn(u)
		}
	}
	// a remote node in an arbitrary state advertising some endpoints
	remoteServes := [2]bool{}
	remoteActive := false
	if v.Choose("remote", 2) == 1 {
		node := &cluster.Node{ID: "r", ProxyAddr: "r:1", AdminAddr: "a", Endpoints: map[string]int{}}
		node.Status = []cluster.NodeStatus{cluster.NodeStatusActive, cluster.NodeStatusUnreachable, cluster.NodeStatusLeft}[v.Choose("remote.status", 3)]
		remoteActive = node.Status == cluster.NodeStatusActive
		for e := range eps {
			if v.Choose("remote."+eps[e], 2) == 1 {
				node.Endpoints[eps[e]] = 1
				remoteServes[e] = true
			}
		}
		cs.AddNode(node)
	}
	// optionally one upstream disconnected just before
	removedE, removedI := -1, -1
	if rm := v.Choose("removed", 3); rm >= 1 {
		removedE = v.Choose("removed.ep", 2)
		if len(ups[removedE]) == 0 {
			return
		}
		removedI = v.Choose("removed.idx", len(ups[removedE]))
		m.RemoveConn(ups[removedE][removedI])
		v.Cover("after-removal")
		if rm == 2 {
			// removed a second time (dropped by the proxy after go-away, then
			// its connection closes): the remaining upstreams are unaffected
			m.RemoveConn(ups[removedE][removedI])
			v.Cover("after-duplicate-removal")
		}
	}
	e := v.Choose("select.ep", 2)
	allow := v.Choose("allow-forward", 2) == 1
	registered := map[Upstream]bool{}
	for i, u := range ups[e] {
		if !(e == removedE && i == removedI) {
			registered[u] = true
		}
	}
	nLocal := len(registered)
	rounds := nLocal
	if rounds == 0 {
		rounds = 1
	}
	seen := map[Upstream]int{}
	for k := 0; k < rounds; k++ {
		u, ok := m.Select(eps[e], allow)
		switch {
		case nLocal > 0:
			v.Assert("C15/select/local-preferred", ok && u != nil && !u.Forward())
			v.Assert("C15/select/registered-for-that-endpoint", registered[u] && u.EndpointID() == eps[e])
			seen[u]++
			v.Cover("local")
		case allow && remoteActive && remoteServes[e]:
			v.Assert("C15/select/remote-when-allowed", ok && u != nil && u.Forward() && u.EndpointID() == eps[e])
			addr, isNode := VerifNodeUpstreamAddr(u)
			v.Assert("C15/select/remote-is-the-advertising-node", isNode && addr == "r:1")
			v.Cover("remote")
		default:
			v.Assert("C15/select/none", !ok && u == nil)
			if !allow && remoteActive && remoteServes[e] {
				v.Cover("forward-not-allowed")
			}
		}
		if ok && u != nil && !allow {
			v.Assert("C15/select/never-remote-when-not-allowed", !u.Forward())
		}
	}
	if nLocal > 0 {
		for u := range registered {
			v.Assert("C15/select/fair-each-once", seen[u] == 1)
		}
	}
	_ = strconv.Itoa
}
