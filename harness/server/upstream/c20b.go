//go:build verif

package upstream

import (
	"strconv"
	"sync"

	pkggossip "github.com/andydunstall/piko/pkg/gossip"
	v "github.com/andydunstall/piko/zzverif"
)

// vConcOp runs one operation of a running node on the shared state; the
// operations are the ones the node's goroutines perform concurrently
// (upstream handlers, the proxy dropping a gone upstream, request routing,
// incoming gossip, the compaction task, status reads).
func vConcOp(w *vWorld, tag string, pre []*vUp, kinds int) {
	switch v.Choose(tag+".op", kinds) {
	case 0: // an upstream connects
		w.m.AddConn(&vUp{id: 90, ep: w.ids[v.Choose(tag+".ep", len(w.ids))]})
	case 1: // an upstream disconnects
		if len(pre) > 0 {
			w.m.RemoveConn(pre[v.Choose(tag+".u", len(pre))])
		}
	case 2: // connect then disconnect (a short-lived connection)
		u := &vUp{id: 91, ep: w.ids[v.Choose(tag+".ep", len(w.ids))]}
		w.m.AddConn(u)
		w.m.RemoveConn(u)
	case 3: // request routing
		_, _ = w.m.Select(w.ids[v.Choose(tag+".ep", len(w.ids))], true)
	case 4: // incoming gossip about a remote node
		w.gs.VerifApplyDelta(vMkDelta("r", []pkggossip.Entry{{Key: "proxy_addr", Value: "p:2", Version: 1}, {Key: "admin_addr", Value: "a:2", Version: 2}, {Key: "endpoint:" + w.ids[0], Value: "2", Version: 3}}))
	case 5: // compaction task
		w.gs.VerifCompactLocal(0)
	case 7: // liveness task: the remote node turns unreachable or recovers
		w.gs.VerifDetector().Levels["r"] = float64(100 * v.Choose(tag+".level", 2))
		w.gs.VerifUpdateLiveness(20)
	case 8: // expiry task
		w.gs.RemoveExpiredAt(v.Time(tag + ".sweep"))
	case 9: // incoming digest naming an unknown node, and the node leaving
		w.gs.VerifApplyDigest(pkggossip.VerifMakeDigest("r2", "g:3", v.U64(tag+".dv"), v.Choose(tag+".dleft", 2) == 1))
	case 6: // status reads, digest and delta generation
		_ = w.m.Endpoints()
		_ = w.cs.Nodes()
		_ = w.gs.Delta(w.gs.Digest(), true)
		_, _ = w.gs.Node("local")
		_ = w.gs.LocalNode()
		_ = w.gs.Nodes()
		_, _ = w.cs.Node("r")
		_, _ = w.cs.LookupEndpoint(w.ids[0])
	}
}

// Harness_C20_concurrent: two (thorough: three) goroutines each run an
// arbitrary operation on one node's shared state, under every schedule the
// thread model distinguishes (context switches before each mutex acquisition,
// bounded pre-emptions). No schedule deadlocks or panics, and when both have
// finished the registry, the routing table and the published gossip state
// agree (C05 "under concurrent execution", C20 "when activity stops").
func Harness_C20_concurrent() { vConcurrent("C20/concurrent", v.Param("kinds", 7)) }

// Harness_C05_concurrent: the same, restricted to connects, disconnects
// (including the same upstream removed by two goroutines: the proxy dropping
// it after go-away while its handler exits) and short-lived connections.
func Harness_C05_concurrent() { vConcurrent("C05/concurrent", 3) }

func vConcurrent(label string, kinds int) {
	T := v.Param("T", 2)
	w := vNewWorld(2)
	var pre []*vUp
	for i := 0; i < v.Choose("registered", 3); i++ {
		pre = append(pre, w.add(v.Choose("pre.ep", 2)))
	}
	if v.Param("remote", 0) == 1 && v.Choose("remote-known", 2) == 1 {
		// a remote node is already known and promoted
		w.gs.VerifApplyDelta(vMkDelta("r", []pkggossip.Entry{{Key: "proxy_addr", Value: "p:2", Version: 1}, {Key: "admin_addr", Value: "a:2", Version: 2}, {Key: "endpoint:" + w.ids[0], Value: "2", Version: 3}}))
	}
	v.Tag("serialised")
	var wg sync.WaitGroup
	for t := 0; t < T; t++ {
		tag := "t" + strconv.Itoa(t)
		wg.Add(1)
		go func() {
			defer wg.Done()
			vConcOp(w, tag, pre, kinds)
		}()
	}
	wg.Wait()
	v.Assert(label+"/locks-released", v.HeldLocks() == 0)
	for _, id := range w.ids {
		reg := 0
		if lb, ok := w.m.localUpstreams[id]; ok {
			reg = len(lb.upstreams)
			v.Assert(label+"/no-empty-balancer", reg > 0)
		}
		v.Assert(label+"/registry-eq-table", reg == w.cs.LocalEndpointListeners(id))
		pub, ok := w.published(id)
		v.Assert(label+"/one-entry-per-endpoint", ok)
		v.Assert(label+"/registry-eq-published", reg == pub)
	}
	v.Cover("quiescent")
}
