//go:build verif

package upstream

import (
	"github.com/andydunstall/piko/pkg/auth"
	"github.com/andydunstall/piko/pkg/log"
	"github.com/andydunstall/piko/server/cluster"
	"github.com/andydunstall/piko/server/config"
	v "github.com/andydunstall/piko/zzverif"
	"github.com/andydunstall/piko/zzverif/ginstub"
)

// Harness_C09_order_upstream: on the upstream port the auth middleware is
// installed before the registration route.
func Harness_C09_order_upstream() {
	ginstub.Reset()
	withAuth := v.Choose("auth", 2) == 1
	var ver *auth.MultiTenantVerifier
	if withAuth {
		ver = auth.NewMultiTenantVerifier(nil, nil)
	}
	cs := cluster.NewState(&cluster.Node{ID: "local"}, log.NewNopLogger())
	m := NewLoadBalancedManager(cs, nil)
	NewServer(m, ver, nil, cs, config.UpstreamConfig{}, log.NewNopLogger())
	authIdx, firstRoute, routes, engines := ginstub.AuthOrder()
	v.Assert("C09/order/upstream/one-engine", engines == 1)
	v.Assert("C09/order/upstream/routes-registered", routes == 1 && firstRoute >= 0)
	if withAuth {
		v.Assert("C09/order/upstream/auth-before-every-route", authIdx >= 0 && authIdx < firstRoute)
		v.Cover("upstream-auth")
	} else {
		v.Assert("C09/order/upstream/no-auth-without-verifier", authIdx == -1)
		v.Cover("upstream-open")
	}
}
