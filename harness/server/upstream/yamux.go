//go:build verif

package upstream

import (
	"context"
	"errors"
	"io"
	"net"
	"time"

	"github.com/andydunstall/yamux"

	v "github.com/andydunstall/piko/zzverif"
)

// yamux is replaced by inert session objects. Contract (yamux session.go):
// OpenStream returns a new stream, ErrRemoteGoAway after the peer sent
// go-away, or another error once the session is shut down;
// AcceptStreamWithContext blocks until a stream arrives, the context ends
// (ctx.Err()), or the session shuts down (the shutdown error, e.g.
// ErrSessionShutdown or the transport's read error).
//
//gosym:stub (*github.com/andydunstall/yamux.Session).OpenStream = VerifStubOpenStream
//gosym:stub (*github.com/andydunstall/yamux.Session).AcceptStreamWithContext = VerifStubAccept
//gosym:stub (*github.com/andydunstall/yamux.Stream).Close = VerifStubStreamClose
//gosym:stub github.com/andydunstall/yamux.Server = VerifStubYamuxServer
//gosym:stub github.com/andydunstall/yamux.DefaultConfig = VerifStubDefaultConfig
//gosym:stub (*github.com/andydunstall/piko/server/upstream.NodeUpstream).Dial = VerifStubNodeDial if hop

// Open outcomes per session: 0 ok, 1 remote go-away, 2 other error.
var (
	VerifOpenOutcome = map[*yamux.Session]int{}
	VerifOpened      []*yamux.Session // sessions on which a stream was opened (deliveries)
	VerifErrOpen     = errors.New("session shutdown")

	// accept script of the session created by the next yamux.Server call
	VerifAcceptScript []int // 0 stream, 1 net.ErrClosed, 2 ctx error, 3 ErrSessionShutdown, 4 other error, 5 wrapped deadline
	VerifAcceptCalls  int
	VerifAcceptCtx    []context.Context
	VerifSessions     []*yamux.Session
	VerifServerConns  []io.ReadWriteCloser
	VerifErrAccept    = errors.New("connection reset")
)

func VerifStubOpenStream(s *yamux.Session) (*yamux.Stream, error) {
	switch VerifOpenOutcome[s] {
	case 1:
		return nil, yamux.ErrRemoteGoAway
	case 2:
		return nil, VerifErrOpen
	}
	VerifOpened = append(VerifOpened, s)
	return &yamux.Stream{}, nil
}

// VerifPeerClosed: the client end of the session's connection has closed.
var VerifPeerClosed = map[*yamux.Session]bool{}

func vIsClosed(s *yamux.Session) bool {
	for _, x := range vClosed {
		if x == s {
			return true
		}
	}
	return false
}

func VerifStubYamuxServer(conn io.ReadWriteCloser, config *yamux.Config) (*yamux.Session, error) {
	s := &yamux.Session{}
	VerifSessions = append(VerifSessions, s)
	VerifServerConns = append(VerifServerConns, conn)
	return s, nil
}

func VerifStubDefaultConfig() *yamux.Config { return &yamux.Config{} }

var VerifStreamCloses int

func VerifStubStreamClose(s *yamux.Stream) error {
	VerifStreamCloses++
	return nil
}

func VerifStubAccept(s *yamux.Session, ctx context.Context) (*yamux.Stream, error) {
	VerifAcceptCtx = append(VerifAcceptCtx, ctx)
	i := VerifAcceptCalls
	VerifAcceptCalls++
	if i >= len(VerifAcceptScript) {
		return nil, yamux.ErrSessionShutdown
	}
	switch VerifAcceptScript[i] {
	case 0:
		return &yamux.Stream{}, nil
	case 1:
		return nil, net.ErrClosed
	case 2:
		if err := ctx.Err(); err != nil {
			return nil, err
		}
		return nil, context.Canceled
	case 3:
		return nil, yamux.ErrSessionShutdown
	case 5:
		return nil, context.DeadlineExceeded
	case 6: // a stream arrives; the harness inspects the state while the handler is "blocked"
		if vProbe != nil {
			vProbe()
		}
		return &yamux.Stream{}, nil
	case 8: // live: nothing arrives until the session is closed (by either side) or the context ends
		v.Yield()
		v.WaitUntil(func() bool { return ctx.Err() != nil || vIsClosed(s) || VerifPeerClosed[s] })
		if vIsClosed(s) {
			return nil, yamux.ErrSessionShutdown
		}
		if VerifPeerClosed[s] {
			return nil, net.ErrClosed
		}
		return nil, ctx.Err()
	case 7: // nothing arrives: accept returns only when its context ends
		if vBlock != nil {
			vBlock(ctx)
		}
		if err := ctx.Err(); err != nil {
			return nil, err
		}
		// the handler would wait forever (reported by vBlock); end the run
		return nil, net.ErrClosed
	}
	return nil, VerifErrAccept
}

// VerifHopConn marks a connection to another piko node.
type VerifHopConn struct{ Addr string }

func (c *VerifHopConn) Read(p []byte) (int, error)         { return 0, io.EOF }
func (c *VerifHopConn) Write(p []byte) (int, error)        { return len(p), nil }
func (c *VerifHopConn) Close() error                       { return nil }
func (c *VerifHopConn) LocalAddr() net.Addr                { return nil }
func (c *VerifHopConn) RemoteAddr() net.Addr               { return nil }
func (c *VerifHopConn) SetDeadline(t time.Time) error      { return nil }
func (c *VerifHopConn) SetReadDeadline(t time.Time) error  { return nil }
func (c *VerifHopConn) SetWriteDeadline(t time.Time) error { return nil }

var (
	VerifHopDials    []string
	VerifHopDialFail = map[string]bool{}
	VerifErrDial     = errors.New("connection refused")
)

// VerifStubNodeDial replaces the TCP/TLS dial to another node (tag "hop").
func VerifStubNodeDial(u *NodeUpstream) (net.Conn, error) {
	VerifHopDials = append(VerifHopDials, u.node.ProxyAddr)
	if VerifHopDialFail[u.node.ProxyAddr] {
		return nil, VerifErrDial
	}
	return &VerifHopConn{Addr: u.node.ProxyAddr}, nil
}

func VerifNodeUpstreamAddr(u Upstream) (string, bool) {
	if n, ok := u.(*NodeUpstream); ok {
		return n.node.ProxyAddr, true
	}
	return "", false
}

func VerifConnUpstreamSession(u Upstream) (*yamux.Session, bool) {
	if c, ok := u.(*ConnUpstream); ok {
		return c.sess, true
	}
	return nil, false
}

func VerifRegistered(m *LoadBalancedManager, id string) int {
	lb, ok := m.localUpstreams[id]
	if !ok {
		return 0
	}
	return len(lb.upstreams)
}

var _ = v.Bool
