//go:build verif

package upstream

import (
	"context"
	"errors"
	"net/http"
	"time"

	"github.com/gorilla/websocket"

	"github.com/andydunstall/piko/pkg/auth"
	"github.com/andydunstall/piko/pkg/log"
	"github.com/andydunstall/piko/pkg/middleware"
	pikowebsocket "github.com/andydunstall/piko/pkg/websocket"
	"github.com/andydunstall/piko/server/cluster"
	"github.com/andydunstall/piko/server/config"
	v "github.com/andydunstall/piko/zzverif"
	"github.com/andydunstall/piko/zzverif/ginstub"
)

// The websocket upgrade fails unless a harness asks for success.
//
//gosym:stub (*github.com/gorilla/websocket.Upgrader).Upgrade = VerifStubUpgrade

var (
	VerifUpgradeOK  bool
	VerifUpgrades   int
	VerifErrUpgrade = errors.New("not a websocket handshake")
)

func VerifStubUpgrade(u *websocket.Upgrader, w http.ResponseWriter, r *http.Request, h http.Header) (*websocket.Conn, error) {
	VerifUpgrades++
	if !VerifUpgradeOK {
		return nil, VerifErrUpgrade
	}
	return &websocket.Conn{}, nil
}

func vNewUpstreamServer() (*Server, *LoadBalancedManager, *cluster.State, func()) {
	cs := cluster.NewState(&cluster.Node{ID: "local", ProxyAddr: "p:1", AdminAddr: "a:1"}, log.NewNopLogger())
	m := NewLoadBalancedManager(cs, nil)
	// built by the real constructor (gin is the recording stub): whatever it
	// wires - contexts, session table, upgrader, routes - is what is checked
	s := NewServer(m, nil, nil, cs, config.UpstreamConfig{}, log.NewNopLogger())
	return s, m, cs, s.cancel
}

// Harness_C16_route: the upstream handler, for every way its connection can
// end. After the handler returns nothing of the connection is left: it is
// deregistered exactly once, its session is released and closed, the
// websocket is closed, and the node advertises what it advertised before.
func Harness_C16_route() {
	A := v.Param("A", 2)
	s, m, cs, _ := vNewUpstreamServer()
	// other upstreams already connected (same or different endpoint)
	others := v.Choose("others", 3)
	var otherUps []*vUp
	for i := 0; i < others; i++ {
		ep := []string{"e0", "e1"}[v.Choose("other.ep", 2)]
		u := &vUp{id: i, ep: ep}
		otherUps = append(otherUps, u)
		m.AddConn(u)
	}
	before := m.Endpoints()
	beforeAdv := map[string]int{"e0": cs.LocalEndpointListeners("e0"), "e1": cs.LocalEndpointListeners("e1")}

	// the connecting client
	ep := []string{"e0", "e1"}[v.Choose("ep", 2)]
	r := &http.Request{Method: "GET", Header: http.Header{}}
	w := ginstub.NewWriter()
	c := ginstub.NewContext(r, w)
	ginstub.Of(c).Params["endpointID"] = ep
	var tok *auth.Token
	hasExpiry := false
	if v.Choose("authenticated", 2) == 1 {
		tok = &auth.Token{TenantID: "t"}
		for i := 0; i < v.Choose("claims", 3); i++ {
			tok.Endpoints = append(tok.Endpoints, []string{"e0", "e1", "other"}[v.Choose("claim", 3)])
		}
		if v.Choose("expiring", 2) == 1 {
			tok.Expiry = v.Time("expiry")
			hasExpiry = true
		}
		c.Set(middleware.TokenContextKey, tok)
	}
	permitted := tok == nil || tok.EndpointPermitted(ep)
	VerifUpgradeOK = v.Choose("upgrade-ok", 2) == 1
	VerifUpgrades = 0
	pikowebsocket.VerifResetCloses()
	vClosed = nil
	VerifSessions, VerifAcceptCtx, VerifAcceptCalls = nil, nil, 0
	// how the connection ends: a script of accept results (streams may be
	// accepted before the end)
	VerifAcceptScript = nil
	n := 1 + v.Choose("accepts", A)
	for i := 0; i < n-1; i++ {
		VerifAcceptScript = append(VerifAcceptScript, 0)
	}
	// go-away followed by close: while the connection is still open the proxy
	// drops the upstream from the registry (its dial returned ErrGone); the
	// handler's own deregistration then finds it already removed
	goAway := v.Choose("go-away-first", 2) == 1
	vProbe = nil
	if goAway {
		n++
		VerifAcceptScript = append(VerifAcceptScript, 6)
		vProbe = func() {
			if lb, ok := m.localUpstreams[ep]; ok {
				for _, u := range lb.upstreams {
					if cu, isConn := u.(*ConnUpstream); isConn && len(VerifSessions) == 1 && cu.sess == VerifSessions[0] {
						m.RemoveConn(u)
						v.Cover("dropped-by-proxy-after-go-away")
						return
					}
				}
			}
		}
	}
	end := 1 + v.Choose("end", 5)
	VerifAcceptScript = append(VerifAcceptScript, end)
	if end == 2 && v.Choose("shutdown", 2) == 1 {
		s.cancel() // server shutdown: the handler context is already cancelled
	}

	s.upstreamRoute(c)
	vProbe = nil

	status := ginstub.Of(c).Status
	if !permitted {
		v.Assert("C16/not-permitted-401", status == http.StatusUnauthorized)
		v.Assert("C16/not-permitted-no-upgrade", VerifUpgrades == 0 && len(VerifSessions) == 0)
		v.Cover("refused")
	} else if !VerifUpgradeOK {
		v.Assert("C16/failed-upgrade-registers-nothing", len(VerifSessions) == 0)
		v.Cover("upgrade-failed")
	} else {
		v.Assert("C16/one-session", len(VerifSessions) == 1)
		sess := VerifSessions[0]
		// the loop ran until the first error and no further
		v.Assert("C16/loop-stops-at-first-error", VerifAcceptCalls == n)
		closed := 0
		for _, x := range vClosed {
			if x == sess {
				closed++
			}
		}
		v.Assert("C16/session-closed", closed >= 1)
		v.Assert("C16/websocket-closed", pikowebsocket.VerifCloses() >= 1)
		// the accept context carries exactly the token's expiry
		for _, actx := range VerifAcceptCtx {
			dl, has := actx.Deadline()
			v.Assert("C16/deadline-iff-expiring-token", has == hasExpiry)
			if has {
				v.Assert("C16/deadline-is-token-expiry", dl.Equal(tok.Expiry))
			}
		}
		switch end {
		case 1:
			v.Cover("end-closed")
		case 2:
			v.Cover("end-context")
		case 3:
			v.Cover("end-session-shutdown")
		case 4:
			v.Cover("end-other-error")
		case 5:
			v.Cover("end-token-expired")
		}
	}
	// leak freedom on every exit path
	v.Assert("C16/no-session-left", s.openSessions() == 0)
	after := m.Endpoints()
	v.Assert("C16/registry-restored", len(after) == len(before))
	for k, n0 := range before {
		v.Assert("C16/registry-restored", after[k] == n0)
	}
	for _, k := range []string{"e0", "e1"} {
		v.Assert("C16/advertisement-restored", cs.LocalEndpointListeners(k) == beforeAdv[k])
	}
	// exactly the connection that ended was deregistered: every other
	// upstream (same or different endpoint) is still registered
	for _, u := range otherUps {
		lb, ok := m.localUpstreams[u.ep]
		v.Assert("C16/other-upstreams-still-registered", ok && vIndexOf(lb, u) >= 0)
	}
}

// Harness_C16_registered_while_connected: while the handler is blocked in
// accept the upstream is registered for exactly the endpoint of the URL and
// selectable; a handler that is blocked in accept (connection open, whatever
// token it authenticated with) is ended by Shutdown: the context it waits on
// is cancelled whether or not the HTTP server shut down cleanly.
func Harness_C16_registered_while_connected() {
	s, m, cs, _ := vNewUpstreamServer()
	ep := []string{"e0", "e1"}[v.Choose("ep", 2)]
	r := &http.Request{Method: "GET", Header: http.Header{}}
	c := ginstub.NewContext(r, ginstub.NewWriter())
	ginstub.Of(c).Params["endpointID"] = ep
	switch v.Choose("token", 3) {
	case 1:
		c.Set(middleware.TokenContextKey, &auth.Token{TenantID: "t"})
		v.Cover("token-without-expiry")
	case 2:
		c.Set(middleware.TokenContextKey, &auth.Token{TenantID: "t", Expiry: v.Time("expiry")})
		v.Cover("token-with-expiry")
	}
	VerifUpgradeOK = true
	VerifSessions, VerifAcceptCtx, VerifAcceptCalls = nil, nil, 0
	vClosed = nil
	VerifAcceptScript = []int{6, 7} // 6: probe (see vProbe), 7: blocked until the context ends (see vBlock)
	vProbe = func() {
		v.Assert("C16/registered-while-connected", VerifRegistered(m, ep) == 1 && cs.LocalEndpointListeners(ep) == 1)
		u, ok := m.Select(ep, false)
		v.Assert("C16/selectable-while-connected", ok && u != nil && u.EndpointID() == ep)
		other := "e1"
		if ep == "e1" {
			other = "e0"
		}
		_, ok2 := m.Select(other, false)
		v.Assert("C16/only-its-endpoint", !ok2)
		v.Assert("C16/session-tracked", s.openSessions() == 1)
		v.Cover("probed")
	}
	shutdowns := 0
	vBlock = func(waiting context.Context) {
		// the connection stays open: only the server can end the handler
		v.Assert("C16/context-live-before-shutdown", waiting.Err() == nil && s.ctx.Err() == nil)
		v.Assert("C16/registered-while-connected", VerifRegistered(m, ep) == 1)
		VerifHTTPShutdownFail = v.Choose("http-shutdown-fails", 2) == 1
		err := s.Shutdown(context.Background())
		shutdowns++
		v.Assert("C16/shutdown-reports-http-error", (err != nil) == VerifHTTPShutdownFail)
		// whether or not the HTTP server shut down cleanly, upstream connections are closed
		v.Assert("C16/shutdown-cancels-handlers", s.ctx.Err() != nil)
		v.Assert("C16/shutdown-ends-blocked-handler", waiting.Err() != nil)
		if VerifHTTPShutdownFail {
			v.Cover("http-shutdown-failed")
		}
	}
	s.upstreamRoute(c)
	vProbe, vBlock = nil, nil
	v.Assert("C16/handler-waited-until-shutdown", shutdowns == 1 && VerifAcceptCalls == 2)
	v.Assert("C16/deregistered-after", VerifRegistered(m, ep) == 0 && cs.LocalEndpointListeners(ep) == 0 && s.openSessions() == 0)
}

var (
	vProbe func()
	vBlock func(context.Context)
)

// net/http.Server.Shutdown is recorded (order of shutdown steps, C18).
//
//gosym:stub (*net/http.Server).Shutdown = VerifStubHTTPShutdown

var (
	VerifHTTPShutdowns    []*http.Server
	VerifHTTPShutdownFail bool
)

func VerifStubHTTPShutdown(srv *http.Server, ctx context.Context) error {
	VerifHTTPShutdowns = append(VerifHTTPShutdowns, srv)
	if VerifHTTPShutdownFail {
		// e.g. the grace period expired while a connection was not idle
		return context.DeadlineExceeded
	}
	return nil
}

var _ = time.Second
