//go:build verif

package upstream

import (
	"context"
	"net/http"
	"sync"

	"github.com/andydunstall/yamux"

	"github.com/andydunstall/piko/pkg/auth"
	"github.com/andydunstall/piko/pkg/middleware"
	pikowebsocket "github.com/andydunstall/piko/pkg/websocket"
	"github.com/andydunstall/piko/server/cluster"
	"github.com/andydunstall/piko/server/config"
	v "github.com/andydunstall/piko/zzverif"
	"github.com/andydunstall/piko/zzverif/ginstub"
)

// Harness_C16_live: K upstream connections are served by the real handler,
// each on its own goroutine (engine thread model) and blocked in accept the
// way a live connection is. Then one thing happens - a client closes, the
// proxy drops an upstream after go-away and the client closes later, the
// server sheds sessions (real Rebalance / shedSessions), or the server shuts
// down - under every schedule of the goroutines involved. Afterwards exactly
// the connections that ended are deregistered, their sessions released and
// closed, and what the node advertises matches what is still connected; the
// handlers of the other connections are still blocked (and are ended by a
// final Shutdown, after which nothing is left).
type vLive struct {
	s     *Server
	m     *LoadBalancedManager
	cs    *cluster.State
	eps   []string
	ended []bool
	wg    sync.WaitGroup
}

// vStartLive serves K upstream connections with the real handler, each on its
// own goroutine, and returns once all are registered and blocked in accept.
func vStartLive(tag string, K int) *vLive {
	l := &vLive{}
	l.s, l.m, l.cs, _ = vNewUpstreamServer()
	VerifUpgradeOK = true
	pikowebsocket.VerifResetCloses()
	vClosed, VerifSessions, VerifAcceptCtx, VerifAcceptCalls = nil, nil, nil, 0
	VerifPeerClosed = map[*yamux.Session]bool{}
	VerifHTTPShutdownFail = false
	// every accept of every connection is a live blocking accept
	VerifAcceptScript = nil
	for i := 0; i < 4*K; i++ {
		VerifAcceptScript = append(VerifAcceptScript, 8)
	}
	l.eps = make([]string, K)
	l.ended = make([]bool, K)
	for i := 0; i < K; i++ {
		i := i
		l.eps[i] = []string{"e0", "e1"}[v.Choose("ep", 2)]
		c := ginstub.NewContext(&http.Request{Method: "GET", Header: http.Header{}}, ginstub.NewWriter())
		ginstub.Of(c).Params["endpointID"] = l.eps[i]
		switch v.Choose("token", 3) {
		case 1:
			c.Set(middleware.TokenContextKey, &auth.Token{TenantID: "t"})
		case 2:
			c.Set(middleware.TokenContextKey, &auth.Token{TenantID: "t", Expiry: v.Time("expiry")})
		}
		l.wg.Add(1)
		go func() {
			defer l.wg.Done()
			l.s.upstreamRoute(c)
			l.ended[i] = true
		}()
	}
	// wait until all K connections are established and blocked in accept
	v.WaitUntil(func() bool { return VerifAcceptCalls >= K && len(VerifSessions) == K })
	for _, id := range []string{"e0", "e1"} {
		n := 0
		for _, e := range l.eps {
			if e == id {
				n++
			}
		}
		v.Assert(tag+"/registered-while-connected", VerifRegistered(l.m, id) == n && l.cs.LocalEndpointListeners(id) == n)
	}
	v.Assert(tag+"/sessions-tracked", l.s.openSessions() == K)
	return l
}

// Harness_C18_upstreams_withdrawn: a node with K live upstream connections
// shuts its upstream server down (whether or not the HTTP server stops within
// the grace period): every handler ends (a schedule in which one cannot is
// reported as a deadlock), every session is closed - so the listeners see the
// loss and reconnect elsewhere - and the node advertises nothing any more.
func Harness_C18_upstreams_withdrawn() {
	K := v.Param("K", 2)
	l := vStartLive("C18/withdrawn", K)
	VerifHTTPShutdownFail = v.Choose("http-shutdown-fails", 2) == 1
	err := l.s.Shutdown(context.Background())
	v.Assert("C18/withdrawn/shutdown-reports-http-error", (err != nil) == VerifHTTPShutdownFail)
	l.wg.Wait()
	for _, id := range []string{"e0", "e1"} {
		v.Assert("C18/withdrawn/nothing-advertised", l.cs.LocalEndpointListeners(id) == 0 && VerifRegistered(l.m, id) == 0)
	}
	v.Assert("C18/withdrawn/no-session-held", l.s.openSessions() == 0)
	for _, x := range VerifSessions {
		v.Assert("C18/withdrawn/every-session-closed", vIsClosed(x))
	}
	if VerifHTTPShutdownFail {
		v.Cover("http-shutdown-failed")
	}
	v.Cover("withdrawn")
}

func Harness_C16_live() {
	K := v.Param("K", 2)
	l := vStartLive("C16/live", K)
	s, m, cs, eps, ended := l.s, l.m, l.cs, l.eps, l.ended
	_ = eps

	// which session belongs to which connection: by registration order of the
	// handler goroutines (sessions are created in the handler)
	sessOf := func(u Upstream) *yamux.Session { return u.(*ConnUpstream).sess }
	var conns []Upstream
	for _, id := range []string{"e0", "e1"} {
		if lb, ok := m.localUpstreams[id]; ok {
			conns = append(conns, lb.upstreams...)
		}
	}
	v.Assert("C16/live/all-registered", len(conns) == K)

	expectEnded := map[*yamux.Session]bool{}
	switch v.Choose("event", 5) {
	case 0: // a client closes its connection
		u := conns[v.Choose("which", K)]
		VerifPeerClosed[sessOf(u)] = true
		expectEnded[sessOf(u)] = true
		v.Cover("client-close")
	case 1: // go-away: the proxy drops the upstream; the client closes later
		u := conns[v.Choose("which", K)]
		m.RemoveConn(u)
		v.Assert("C16/live/dropped-upstream-not-selectable", vIndexOfAny(m, u) < 0)
		VerifPeerClosed[sessOf(u)] = true
		expectEnded[sessOf(u)] = true
		v.Cover("go-away-then-close")
	case 2: // the server sheds n sessions
		n := 1 + v.Choose("shed", K)
		s.shedSessions(n)
		v.Assert("C16/live/shed-closes-exactly-n", len(vClosed) == n)
		for _, x := range vClosed {
			expectEnded[x] = true
		}
		v.Cover("shed")
	case 3: // rebalance against a cluster in which this node is overloaded
		cs.AddNode(&cluster.Node{ID: "other", ProxyAddr: "p:2", AdminAddr: "a:2", Status: cluster.NodeStatusActive, Endpoints: map[string]int{}})
		s.config.Rebalance = config.RebalanceConfig{Threshold: 0.1, ShedRate: 0.5, MinConns: 1}
		s.Rebalance()
		for _, x := range vClosed {
			expectEnded[x] = true
		}
		v.Assert("C16/live/rebalance-sheds-some", len(vClosed) >= 1 && len(vClosed) <= K)
		v.Cover("rebalance")
	case 4: // server shutdown (whether or not the HTTP server stops within the grace period)
		VerifHTTPShutdownFail = v.Choose("http-shutdown-fails", 2) == 1
		_ = s.Shutdown(context.Background())
		VerifHTTPShutdownFail = false
		for _, u := range conns {
			expectEnded[sessOf(u)] = true
		}
		v.Cover("shutdown")
	}
	// the handlers of the ended connections return; the others stay blocked
	nEnd := len(expectEnded)
	v.WaitUntil(func() bool {
		n := 0
		for _, e := range ended {
			if e {
				n++
			}
		}
		return n >= nEnd
	})
	left := map[string]int{}
	for _, u := range conns {
		if !expectEnded[sessOf(u)] {
			left[u.EndpointID()]++
			v.Assert("C16/live/other-connections-stay-registered", vIndexOfAny(m, u) >= 0)
		} else {
			v.Assert("C16/live/ended-connection-deregistered", vIndexOfAny(m, u) < 0)
			v.Assert("C16/live/ended-session-closed", vIsClosed(sessOf(u)))
		}
	}
	for _, id := range []string{"e0", "e1"} {
		v.Assert("C16/live/registry-matches-open-connections", VerifRegistered(m, id) == left[id])
		v.Assert("C16/live/advertisement-matches-open-connections", cs.LocalEndpointListeners(id) == left[id])
	}
	v.Assert("C16/live/sessions-match-open-connections", s.openSessions() == K-nEnd)

	// finally the server shuts down: every handler ends, nothing is left
	_ = s.Shutdown(context.Background())
	l.wg.Wait()
	v.Assert("C16/live/nothing-left-after-shutdown", s.openSessions() == 0 && VerifRegistered(m, "e0") == 0 && VerifRegistered(m, "e1") == 0 &&
		cs.LocalEndpointListeners("e0") == 0 && cs.LocalEndpointListeners("e1") == 0)
	v.Assert("C16/live/every-session-closed", len(VerifSessions) == K)
	for _, x := range VerifSessions {
		v.Assert("C16/live/every-session-closed", vIsClosed(x))
	}
}

func vIndexOfAny(m *LoadBalancedManager, u Upstream) int {
	if lb, ok := m.localUpstreams[u.EndpointID()]; ok {
		return vIndexOf(lb, u)
	}
	return -1
}
