//go:build verif

package gossip

import (
	"github.com/andydunstall/piko/pkg/log"
	"github.com/andydunstall/piko/server/cluster"
)

type VerifSyncer = syncer

func VerifNewSyncer(cs *cluster.State) *syncer {
	return newSyncer(cs, log.NewNopLogger())
}

// VerifPending exposes the pending-node table.
func (s *syncer) VerifPending() map[string]*cluster.Node { return s.pendingNodes }
