//go:build verif

package gossip

import (
	"strconv"

	pkggossip "github.com/andydunstall/piko/pkg/gossip"
	"github.com/andydunstall/piko/pkg/log"
	"github.com/andydunstall/piko/server/cluster"
	v "github.com/andydunstall/piko/zzverif"
)

const vOwner = "o"

func vC04Keys(E int) []string {
	ks := []string{"proxy_addr", "admin_addr"}
	for i := 0; i < E; i++ {
		ks = append(ks, "endpoint:e"+strconv.Itoa(i))
	}
	return ks
}

// vC04Value: addresses are arbitrary non-empty strings, endpoint values are
// decimal(n) with 1 <= n < 2^31 (what syncer.Sync/onLocalEndpointUpdate publish).
func vC04Value(pfx, key string) string {
	if key == "proxy_addr" || key == "admin_addr" {
		s := v.Str(pfx + "." + key)
		v.Assume(s != "")
		return s
	}
	n := v.U64(pfx + "." + key + ".n")
	v.Assume(v.And(n >= 1, n < 1<<31))
	return v.Dec(n)
}

// vObserver is a real gossip state + real syncer + real routing table.
type vObserver struct {
	cs *cluster.State
	sy *syncer
	gs *pkggossip.VerifClusterState
}

func vNewObserver() *vObserver {
	o := &vObserver{}
	o.cs = cluster.NewState(&cluster.Node{ID: "obs", ProxyAddr: "p-obs", AdminAddr: "a-obs"}, log.NewNopLogger())
	o.sy = newSyncer(o.cs, log.NewNopLogger())
	o.gs = pkggossip.VerifNewState("obs", o.sy)
	return o
}

func vVisible(n *pkggossip.VerifNodeState, key string) (string, bool) {
	e, ok := n.Entries[key]
	if !ok || v.Concretize(vB2I(e.Deleted), 0, 1) == 1 {
		return "", false
	}
	return e.Value, true
}

func vB2I(b bool) int { return v.IteInt(b, 1, 0) }

func vStatusOf(n *pkggossip.VerifNodeState) cluster.NodeStatus {
	if n.Left {
		return cluster.NodeStatusLeft
	}
	if n.Unreachable {
		return cluster.NodeStatusUnreachable
	}
	return cluster.NodeStatusActive
}

// vVisibleEndpoints: what the view shows for the E endpoints.
func vVisibleEndpoints(n *pkggossip.VerifNodeState, E int) map[string]int {
	m := map[string]int{}
	for i := 0; i < E; i++ {
		id := "e" + strconv.Itoa(i)
		if val, ok := vVisible(n, "endpoint:"+id); ok {
			c, err := strconv.Atoi(val)
			v.Assume(err == nil)
			m[id] = c
		}
	}
	return m
}

// vCheckJ evaluates the coupling invariant J between the gossip view of the
// owner, the syncer's pending table and the routing table. With assert=false
// it returns whether J holds (for Assume); with assert=true it asserts each
// clause.
func vCheckJ(tag string, ob *vObserver, addrP, addrA string, E int, assert bool) bool {
	ok := true
	chk := func(name string, c bool) {
		if assert {
			v.Assert(tag+"/"+name, c)
		} else {
			ok = v.And(ok, c)
		}
	}
	w, known := ob.gs.VerifNodes()[vOwner]
	node, promoted := ob.cs.VerifNodes()[vOwner]
	pend, pending := ob.sy.pendingNodes[vOwner]
	chk("never-both", !(promoted && pending))
	if !known {
		chk("unknown-node-absent", !promoted && !pending)
		return ok
	}
	st := vStatusOf(w)
	want := vVisibleEndpoints(w, E)
	pv, pvis := vVisible(w, "proxy_addr")
	av, avis := vVisible(w, "admin_addr")
	if pvis {
		chk("view-addr-immutable", pv == addrP)
	}
	if avis {
		chk("view-addr-immutable", av == addrA)
	}
	var eps map[string]int
	switch {
	case promoted:
		chk("promoted-proxy-addr", node.ProxyAddr == addrP)
		chk("promoted-admin-addr", node.AdminAddr == addrA)
		chk("promoted-status", node.Status == st)
		chk("promoted-id", node.ID == vOwner)
		eps = node.Endpoints
	case pending:
		chk("pending-not-left", !w.Left)
		chk("pending-proxy-addr", v.Or(pend.ProxyAddr == "", pend.ProxyAddr == addrP))
		chk("pending-admin-addr", v.Or(pend.AdminAddr == "", pend.AdminAddr == addrA))
		chk("pending-incomplete", v.Or(pend.ProxyAddr == "", pend.AdminAddr == ""))
		if pvis {
			chk("pending-seen-proxy-addr", pend.ProxyAddr == addrP)
		}
		if avis {
			chk("pending-seen-admin-addr", pend.AdminAddr == addrA)
		}
		if w.Unreachable {
			chk("pending-status", pend.Status == cluster.NodeStatusUnreachable)
		} else {
			chk("pending-status", pend.Status == "" || pend.Status == cluster.NodeStatusActive)
		}
		chk("pending-id", pend.ID == vOwner)
		eps = pend.Endpoints
	default:
		chk("absent-only-if-left-while-pending", w.Left)
		return ok
	}
	for i := 0; i < E; i++ {
		id := "e" + strconv.Itoa(i)
		got, gp := eps[id]
		exp, ep := want[id]
		chk("endpoints-mirror-view", gp == ep)
		if gp && ep {
			chk("endpoint-count-mirrors-view", got == exp)
		}
	}
	chk("no-extra-endpoints", len(eps) == len(want))
	return ok
}

// vInstall puts the syncer/routing table into an arbitrary J-consistent
// state for the given view.
func vInstall(ob *vObserver, w *pkggossip.VerifNodeState, addrP, addrA string, E int) {
	eps := vVisibleEndpoints(w, E)
	switch v.Choose("table", 3) {
	case 0: // promoted
		ob.cs.AddNode(&cluster.Node{ID: vOwner, ProxyAddr: addrP, AdminAddr: addrA, Status: vStatusOf(w), Endpoints: eps})
		v.Cover("pre-promoted")
	case 1: // pending
		n := &cluster.Node{ID: vOwner}
		if len(eps) > 0 {
			n.Endpoints = eps
		}
		switch v.Choose("pending.addrs", 3) {
		case 1:
			n.ProxyAddr = addrP
		case 2:
			n.AdminAddr = addrA
		}
		if w.Unreachable {
			n.Status = cluster.NodeStatusUnreachable
		} else if v.Choose("pending.status", 2) == 1 {
			n.Status = cluster.NodeStatusActive
		}
		ob.sy.pendingNodes[vOwner] = n
		v.Cover("pre-pending")
	case 2: // neither (left while pending)
		v.Cover("pre-absent")
	}
}

// vC04Setup builds owner, (optional relay) and observer for E endpoints.
func vC04Setup(E int) (os *pkggossip.VerifClusterState, o *pkggossip.VerifNodeState, oc uint64, addrP, addrA string, K int) {
	K = 2 + E
	pkggossip.VerifSetUserKeys(vC04Keys(E), vC04Value)
	pkggossip.VerifSetDeletable(func(key string) bool { return key != "proxy_addr" && key != "admin_addr" })
	if v.Param("noleft", 0) == 1 {
		pkggossip.VerifSkipKey(pkggossip.VerifLeftKey)
	}
	if v.Param("nomarker", 0) == 1 {
		pkggossip.VerifSkipKey(pkggossip.VerifCompactKey)
	}
	os, o, oc = pkggossip.VerifBuildOwner("o", K)
	// the owner published both addresses (Sync) and never deletes them
	pe, pp := o.Entries["proxy_addr"]
	ae, ap := o.Entries["admin_addr"]
	v.Assume(pp && ap)
	v.Assume(v.And(!pe.Deleted, !ae.Deleted))
	// Sync publishes proxy_addr, then admin_addr, then the endpoints; the
	// addresses are never rewritten and compaction re-versions in version
	// order, so this order is an invariant of the owner
	v.Assume(pe.Version < ae.Version)
	for i := 0; i < E; i++ {
		if e, ok := o.Entries["endpoint:e"+strconv.Itoa(i)]; ok {
			v.Assume(ae.Version < e.Version)
		}
	}
	return os, o, oc, pe.Value, ae.Value, K
}

func vAssumeAddrsImmutable(w *pkggossip.VerifNodeState, addrP, addrA string) {
	if e, ok := w.Entries["proxy_addr"]; ok {
		v.Assume(v.And(!e.Deleted, e.Value == addrP))
	}
	if e, ok := w.Entries["admin_addr"]; ok {
		v.Assume(v.And(!e.Deleted, e.Value == addrA))
	}
}

// Harness_C04_step: one gossip step on an observer whose routing table is
// coupled to its view; the coupling is preserved.
func Harness_C04_step() {
	E := v.Param("E", 1)
	os, o, oc, addrP, addrA, K := vC04Setup(E)
	ob := vNewObserver()
	w := pkggossip.VerifViewOf("w", ob.gs, o, oc, K)
	vAssumeAddrsImmutable(w, addrP, addrA)
	// (a node can be both: marked unreachable first, its left marker learned
	// through a relay afterwards)
	if v.Choose("w.unreachable", 2) == 1 {
		w.Unreachable = true
		w.Expiry = v.Time("w.expiry")
	}
	if w.Left {
		w.Expiry = v.Time("w.expiry")
	}
	vInstall(ob, w, addrP, addrA, E)
	v.Assume(vCheckJ("", ob, addrP, addrA, E, false))

	// which step kinds this run explores (bit i = step kind i)
	mask := v.Param("steps", 1|4|8)
	var steps []int
	for i := 0; i < 4; i++ {
		if mask&(1<<i) != 0 {
			steps = append(steps, i)
		}
	}
	switch steps[v.Choose("step", len(steps))] {
	case 0: // delta from the owner
		pkggossip.VerifDeliver(os, ob.gs, false)
		v.Cover("step-direct")
	case 1: // delta from a relay holding its own consistent view
		relay := pkggossip.VerifNewState("r", nil)
		rv := pkggossip.VerifViewOf("rv", relay, o, oc, K)
		vAssumeAddrsImmutable(rv, addrP, addrA)
		pkggossip.VerifDeliver(relay, ob.gs, false)
		v.Cover("step-relay")
	case 2: // liveness evaluation
		ob.gs.VerifDetector().Levels[vOwner] = v.F64("level")
		ob.gs.VerifUpdateLiveness(v.F64("threshold"))
		v.Cover("step-liveness")
	case 3: // expiry sweep
		ob.gs.RemoveExpiredAt(v.Time("sweep"))
		v.Cover("step-expiry")
	}
	vCheckJ("C04/step", ob, addrP, addrA, E, true)
}

// Harness_C04_first_contact: the observer has never heard of the owner;
// discovery by digest and/or a first (possibly truncated) delta.
func Harness_C04_first_contact() {
	E := v.Param("E", 1)
	os, _, _, addrP, addrA, _ := vC04Setup(E)
	ob := vNewObserver()
	if v.Choose("digest-first", 2) == 1 {
		ob.gs.VerifApplyDigest(pkggossip.VerifDigestOf(os, vOwner))
		vCheckJ("C04/first/after-digest", ob, addrP, addrA, E, true)
		v.Cover("discovered")
	}
	pkggossip.VerifDeliver(os, ob.gs, true)
	vCheckJ("C04/first", ob, addrP, addrA, E, true)
	// a second exchange completes whatever the first one truncated
	pkggossip.VerifDeliver(os, ob.gs, false)
	vCheckJ("C04/first/second-exchange", ob, addrP, addrA, E, true)
	v.Cover("first-contact")
}

// Harness_C04_caughtup: a coupled observer whose view has reached the owner's
// version lists exactly the owner's addresses and active endpoints.
func Harness_C04_caughtup() {
	E := v.Param("E", 1)
	_, o, oc, addrP, addrA, K := vC04Setup(E)
	ob := vNewObserver()
	w := pkggossip.VerifViewOf("w", ob.gs, o, oc, K)
	vAssumeAddrsImmutable(w, addrP, addrA)
	v.Assume(w.Version == o.Version)
	vInstall(ob, w, addrP, addrA, E)
	v.Assume(vCheckJ("", ob, addrP, addrA, E, false))
	node, ok := ob.cs.Node(vOwner)
	if !ok {
		// only a node that left before its addresses arrived is missing
		v.Assert("C04/caughtup/missing-only-if-left", o.Left)
		v.Cover("caughtup-left-while-pending")
		return
	}
	v.Assert("C04/caughtup/proxy-addr", node.ProxyAddr == addrP)
	v.Assert("C04/caughtup/admin-addr", node.AdminAddr == addrA)
	for i := 0; i < E; i++ {
		id := "e" + strconv.Itoa(i)
		oe, present := o.Entries["endpoint:"+id]
		got, listed := node.Endpoints[id]
		if present && v.Concretize(vB2I(oe.Deleted), 0, 1) == 0 {
			n, err := strconv.Atoi(oe.Value)
			v.Assert("C04/caughtup/endpoint-listed", listed && err == nil)
			v.Assert("C04/caughtup/endpoint-count", got == n)
			v.Cover("caughtup-endpoint")
		} else {
			v.Assert("C04/caughtup/withdrawn-endpoint-gone", !listed)
			v.Cover("caughtup-withdrawn")
		}
	}
	if o.Left {
		v.Assert("C04/caughtup/left-status", node.Status == cluster.NodeStatusLeft)
	}
}

// Harness_C04_lookup: for arbitrary routing tables LookupEndpoint returns
// only a remote, active node advertising at least one upstream for that
// endpoint, and returns one whenever such a node exists.
func Harness_C04_lookup() {
	N := v.Param("N", 2)
	if v.Choose("maporder", 2) == 1 {
		v.Tag("maporder-reverse") // Go randomises map iteration: explore both orders
	}
	cs := cluster.NewState(&cluster.Node{ID: "local", ProxyAddr: "p", AdminAddr: "a", Endpoints: map[string]int{"e": v.Int("local.count", 0, 1<<20)}}, log.NewNopLogger())
	exists := false
	type rec struct {
		status cluster.NodeStatus
		has    bool
		count  int
	}
	recs := map[string]rec{}
	n := v.Choose("nodes", N+1)
	for i := 0; i < n; i++ {
		id := "r" + strconv.Itoa(i)
		node := &cluster.Node{ID: id, ProxyAddr: "p", AdminAddr: "a"}
		node.Status = []cluster.NodeStatus{cluster.NodeStatusActive, cluster.NodeStatusUnreachable, cluster.NodeStatusLeft}[v.Choose("status", 3)]
		r := rec{status: node.Status}
		if v.Choose("has", 2) == 1 {
			r.has = true
			r.count = v.Int("count", -2, 1<<20)
			node.Endpoints = map[string]int{"e": r.count}
		}
		if v.Choose("other", 2) == 1 {
			if node.Endpoints == nil {
				node.Endpoints = map[string]int{}
			}
			node.Endpoints["other"] = v.Int("othercount", 1, 1<<20)
		}
		recs[id] = r
		if r.has && node.Status == cluster.NodeStatusActive {
			exists = v.Or(exists, r.count > 0)
		}
		cs.AddNode(node)
	}
	got, ok := cs.LookupEndpoint("e")
	v.Assert("C04/lookup/found-iff-exists", ok == exists)
	if ok {
		r, known := recs[got.ID]
		v.Assert("C04/lookup/remote-node", known && got.ID != "local")
		v.Assert("C04/lookup/active", r.status == cluster.NodeStatusActive)
		v.Assert("C04/lookup/advertises", r.has && r.count > 0)
		v.Cover("lookup-found")
	} else {
		v.Cover("lookup-none")
	}
}
