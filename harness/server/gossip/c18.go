//go:build verif

package gossip

import (
	"strconv"

	pkggossip "github.com/andydunstall/piko/pkg/gossip"
	"github.com/andydunstall/piko/server/cluster"
	v "github.com/andydunstall/piko/zzverif"
)

// Harness_C18_leave_effect: a node announces its departure (real LeaveLocal,
// real LocalDelta, delivered whole as the leave stream does). A receiver in any
// state coupled to any consistent prior view stops routing to it at once:
// LookupEndpoint never returns the leaver again, for any endpoint.
func Harness_C18_leave_effect() {
	E := v.Param("E", 1)
	os, o, oc, addrP, addrA, K := vC04Setup(E)
	v.Assume(!o.Left)
	ob := vNewObserver()
	w := pkggossip.VerifViewOf("w", ob.gs, o, oc, K)
	vAssumeAddrsImmutable(w, addrP, addrA)
	vInstall(ob, w, addrP, addrA, E)
	v.Assume(vCheckJ("", ob, addrP, addrA, E, false))

	os.VerifLeaveLocal()
	// the compaction task may run between the local leave and the
	// notifications (a node that just lost all its upstreams has many deleted
	// keys): the departure must survive it
	if v.Choose("compaction-after-leave", 2) == 1 {
		os.VerifCompactLocal(0)
		v.Cover("compacted-after-leave")
	}
	ob.gs.VerifApplyDelta(os.VerifLocalDelta())

	for i := 0; i < E; i++ {
		node, ok := ob.cs.LookupEndpoint("e" + strconv.Itoa(i))
		v.Assert("C18/leave-effect/not-routed-to-leaver", !ok || node.ID != vOwner)
	}
	if n, ok := ob.cs.Node(vOwner); ok {
		v.Assert("C18/leave-effect/status-left", n.Status == cluster.NodeStatusLeft)
		v.Cover("leave-applied")
	}
	view := ob.gs.VerifNodes()[vOwner]
	v.Assert("C18/leave-effect/view-left", view != nil && view.Left)
	vCheckJ("C18/leave-effect/J", ob, addrP, addrA, E, true)
}
