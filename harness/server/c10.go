//go:build verif

package server

import (
	"crypto/tls"
	"net"

	"github.com/prometheus/client_golang/prometheus"

	"github.com/andydunstall/piko/pkg/auth"
	"github.com/andydunstall/piko/pkg/log"
	"github.com/andydunstall/piko/server/admin"
	"github.com/andydunstall/piko/server/cluster"
	"github.com/andydunstall/piko/server/config"
	"github.com/andydunstall/piko/server/proxy"
	"github.com/andydunstall/piko/server/status"
	"github.com/andydunstall/piko/server/upstream"
	v "github.com/andydunstall/piko/zzverif"
)

// The listeners and the three sub-server constructors are replaced by
// summaries that record which verifier each port is given (tag "c10-wiring");
// the configuration loading (auth.Config.Load with HMAC secrets) and the
// verifier construction are the real code.
//
//gosym:stub (*github.com/andydunstall/piko/server.Server).proxyListen = vStubListen if c10-wiring
//gosym:stub (*github.com/andydunstall/piko/server.Server).upstreamListen = vStubListen if c10-wiring
//gosym:stub (*github.com/andydunstall/piko/server.Server).adminListen = vStubListen if c10-wiring
//gosym:stub github.com/andydunstall/piko/server/proxy.NewServer = vStubNewProxy if c10-wiring
//gosym:stub github.com/andydunstall/piko/server/upstream.NewServer = vStubNewUpstream if c10-wiring
//gosym:stub github.com/andydunstall/piko/server/admin.NewServer = vStubNewAdmin if c10-wiring
//gosym:stub (*github.com/andydunstall/piko/server/admin.Server).AddStatus = vStubAddStatus if c10-wiring

var vProxyVer, vUpstreamVer, vAdminVer *auth.MultiTenantVerifier
var vBuilt int

func vStubListen(s *Server) (net.Listener, error) { return nil, nil }

func vStubNewProxy(m upstream.Manager, c config.ProxyConfig, r *prometheus.Registry, ver *auth.MultiTenantVerifier, t *tls.Config, l log.Logger) *proxy.Server {
	vProxyVer = ver
	vBuilt++
	return &proxy.Server{}
}
func vStubNewUpstream(m upstream.Manager, ver *auth.MultiTenantVerifier, t *tls.Config, cs *cluster.State, c config.UpstreamConfig, l log.Logger) *upstream.Server {
	vUpstreamVer = ver
	vBuilt++
	return &upstream.Server{}
}
func vStubNewAdmin(cs *cluster.State, r *prometheus.Registry, ver *auth.MultiTenantVerifier, t *tls.Config, l log.Logger) *admin.Server {
	vAdminVer = ver
	vBuilt++
	return &admin.Server{}
}
func vStubAddStatus(s *admin.Server, route string, h status.Handler) {}

func vAuthConf(name string) (auth.Config, bool) {
	if v.Choose(name+".auth", 2) == 0 {
		return auth.Config{}, false
	}
	return auth.Config{HMACSecretKey: "secret-" + name}, true
}

func vKeyOf(ver auth.Verifier) string {
	j, ok := ver.(*auth.JWTVerifier)
	if !ok {
		return "?"
	}
	return string(j.VerifHMAC())
}

// Harness_C10_server_wiring: NewServer gives each port a verifier exactly when
// it must be protected, and on the upstream port one verifier per configured
// tenant, keyed by the tenant's id and built from that tenant's own key.
func Harness_C10_server_wiring() {
	v.Tag("c10-wiring")
	vProxyVer, vUpstreamVer, vAdminVer, vBuilt = nil, nil, nil, 0
	conf := &config.Config{}
	conf.Cluster.NodeID = "n1"
	var proxyOn, upstreamOn, adminOn bool
	conf.Proxy.Auth, proxyOn = vAuthConf("proxy")
	conf.Upstream.Auth, upstreamOn = vAuthConf("upstream")
	conf.Admin.Auth, adminOn = vAuthConf("admin")
	T := v.Choose("tenants", v.Param("T", 2)+1)
	ids := []string{"tenant-a", "tenant-b", "tenant-c"}
	for i := 0; i < T; i++ {
		conf.Upstream.Tenants = append(conf.Upstream.Tenants, config.TenantConfig{ID: ids[i], Auth: auth.Config{HMACSecretKey: "secret-" + ids[i]}})
	}
	s, err := NewServer(conf, log.NewNopLogger())
	v.Assert("C10/wiring/built", err == nil && s != nil && vBuilt == 3)

	v.Assert("C10/wiring/proxy-protected-iff-configured", (vProxyVer != nil) == proxyOn)
	v.Assert("C10/wiring/admin-protected-iff-configured", (vAdminVer != nil) == adminOn)
	v.Assert("C10/wiring/upstream-protected-iff-key-or-tenants", (vUpstreamVer != nil) == (upstreamOn || T > 0))
	if proxyOn {
		v.Assert("C10/wiring/proxy-key", vKeyOf(vProxyVer.VerifDefault()) == "secret-proxy" && len(vProxyVer.VerifTenants()) == 0)
	}
	if adminOn {
		v.Assert("C10/wiring/admin-key", vKeyOf(vAdminVer.VerifDefault()) == "secret-admin" && len(vAdminVer.VerifTenants()) == 0)
	}
	if vUpstreamVer != nil {
		ts := vUpstreamVer.VerifTenants()
		v.Assert("C10/wiring/one-verifier-per-tenant", len(ts) == T)
		for i := 0; i < T; i++ {
			tv, ok := ts[ids[i]]
			v.Assert("C10/wiring/tenant-keyed-by-id", ok)
			if ok {
				v.Assert("C10/wiring/tenant-own-key", vKeyOf(tv) == "secret-"+ids[i])
			}
		}
		if upstreamOn {
			v.Assert("C10/wiring/upstream-default-key", vKeyOf(vUpstreamVer.VerifDefault()) == "secret-upstream")
		}
		if T > 0 {
			// with tenants configured a request naming no tenant is refused
			_, verr := vUpstreamVer.Verify("any-token", "")
			v.Assert("C10/wiring/no-tenant-refused", verr == auth.ErrUnknownTenant)
			v.Cover("tenants")
		}
	}
	if !upstreamOn && T > 0 {
		v.Cover("tenants-without-default-key")
	}
}
