//go:build verif

package server

import (
	"context"
	"errors"
	"time"

	"go.uber.org/atomic"

	"github.com/andydunstall/piko/pkg/log"
	"github.com/andydunstall/piko/server/admin"
	"github.com/andydunstall/piko/server/config"
	"github.com/andydunstall/piko/server/gossip"
	"github.com/andydunstall/piko/server/proxy"
	"github.com/andydunstall/piko/server/upstream"
	v "github.com/andydunstall/piko/zzverif"
)

// The sub-servers and the gossiper are replaced by event-logging summaries
// (tag "c18-order"); what is checked is the order in which the real
// Server.Shutdown drives them and the context it gives them.
//
//gosym:stub (*github.com/andydunstall/piko/server/upstream.Server).Shutdown = vStubUpstreamShutdown if c18-order
//gosym:stub (*github.com/andydunstall/piko/server/proxy.Server).Shutdown = vStubProxyShutdown if c18-order
//gosym:stub (*github.com/andydunstall/piko/server/admin.Server).Shutdown = vStubAdminShutdown if c18-order
//gosym:stub (*github.com/andydunstall/piko/server/admin.Server).SetReady = vStubSetReady if c18-order
//gosym:stub (*github.com/andydunstall/piko/server/gossip.Gossip).Leave = vStubGossipLeave if c18-order
//gosym:stub (*github.com/andydunstall/piko/server/gossip.Gossip).Close = vStubGossipClose if c18-order

var (
	vEvents  []string
	vCtxs    []context.Context
	vFail    = map[string]bool{}
	vErrStep = errors.New("step failed")
)

func vStep(name string, ctx context.Context) error {
	vEvents = append(vEvents, name)
	if ctx != nil {
		vCtxs = append(vCtxs, ctx)
	}
	if vFail[name] {
		return vErrStep
	}
	return nil
}

func vStubUpstreamShutdown(s *upstream.Server, ctx context.Context) error {
	return vStep("upstream-shutdown", ctx)
}
func vStubProxyShutdown(s *proxy.Server, ctx context.Context) error {
	return vStep("proxy-shutdown", ctx)
}
func vStubAdminShutdown(s *admin.Server, ctx context.Context) error {
	return vStep("admin-shutdown", ctx)
}
func vStubSetReady(s *admin.Server, ready bool) {
	if ready {
		vStep("ready-true", nil)
	} else {
		vStep("ready-false", nil)
	}
}
func vStubGossipLeave(g *gossip.Gossip, ctx context.Context) error { return vStep("leave", ctx) }
func vStubGossipClose(g *gossip.Gossip) error                      { return vStep("gossip-close", nil) }

// Harness_C18_shutdown_order: graceful shutdown stops advertising readiness,
// then closes upstream connections, then the proxy, then announces departure,
// then closes gossip, then the admin port - all within the grace period, and
// whether or not individual steps fail.
func Harness_C18_shutdown_order() {
	v.Tag("c18-order")
	vEvents, vCtxs = nil, nil
	vFail = map[string]bool{}
	for _, step := range []string{"upstream-shutdown", "proxy-shutdown", "leave", "admin-shutdown"} {
		if v.Choose("fail."+step, 2) == 1 {
			vFail[step] = true
		}
	}
	grace := time.Duration(v.I64("grace"))
	v.Assume(grace > 0)
	rebalanceStopped, jwksStopped := 0, 0
	s := &Server{
		upstreamServer:    &upstream.Server{},
		proxyServer:       &proxy.Server{},
		adminServer:       &admin.Server{},
		gossiper:          &gossip.Gossip{},
		conf:              &config.Config{GracePeriod: grace},
		shutdown:          atomic.NewBool(false),
		logger:            log.NewNopLogger(),
		rebalanceCancel:   func() { rebalanceStopped++ },
		stopJWKSRefresher: func() { jwksStopped++ },
	}
	s.Shutdown()

	want := []string{"ready-false", "upstream-shutdown", "proxy-shutdown", "leave", "gossip-close", "admin-shutdown"}
	v.Assert("C18/shutdown/all-steps-run", len(vEvents) == len(want))
	if len(vEvents) == len(want) {
		for i := range want {
			v.Assert("C18/shutdown/order", vEvents[i] == want[i])
		}
	}
	v.Assert("C18/shutdown/background-tasks-stopped", rebalanceStopped == 1 && jwksStopped == 1)
	for _, ctx := range vCtxs {
		d, ok := v.CtxTimeout(ctx)
		v.Assert("C18/shutdown/grace-period-bounds-every-step", ok && d == grace)
	}
	v.Cover("shutdown")
}
