//go:build verif

package cluster

// VerifNodes exposes the routing table (no copy) to harnesses.
func (s *State) VerifNodes() map[string]*Node { return s.nodes }
