//go:build verif

package proxy

import (
	"context"
	"errors"
	"fmt"
	"net/http"
	"net/http/httputil"
	"net/url"
	"strings"
	"time"

	"github.com/andydunstall/yamux"
	"github.com/gin-gonic/gin"

	"github.com/andydunstall/piko/pkg/auth"
	"github.com/andydunstall/piko/pkg/log"
	"github.com/andydunstall/piko/pkg/middleware"
	"github.com/andydunstall/piko/server/cluster"
	"github.com/andydunstall/piko/server/upstream"
	v "github.com/andydunstall/piko/zzverif"
	"github.com/andydunstall/piko/zzverif/ginstub"
)

// The network and net/http/httputil are replaced by this contract
// (net/http/httputil/reverseproxy.go): ReverseProxy.ServeHTTP clones the
// inbound request, calls Director on the clone, removes the hop-by-hop
// headers (those listed in Connection, then the standard list), dials through
// Transport.DialContext with the clone's context, calls ErrorHandler with the
// clone when the round trip fails, and otherwise relays the response. A dial
// that reaches another piko node delivers the outbound request to that node's
// proxy port with the same method, path, query, Host and end-to-end headers.
//
//gosym:stub (*net/http/httputil.ReverseProxy).ServeHTTP = vStubReverseProxy if proxy-world
// (the websocket Upgrade stub lives in the server/upstream harness: it fails
// unless a harness asks for success, so the TCP route ends after the dial)

type vNodeW struct {
	id   string
	addr string
	cs   *cluster.State
	m    *upstream.LoadBalancedManager
	srv  *Server
}

type vOutbound struct {
	in  *http.Request // as handed to ReverseProxy.ServeHTTP
	out *http.Request // after Director and hop-by-hop removal
}

var (
	vNodes       []*vNodeW
	vSessOwner   = map[*yamux.Session]string{} // session -> "node/endpoint"
	vHops        int
	vHandlerRuns int
	vCaptured    []*vOutbound
	vToken       *auth.Token
	vRoundTrip   int // 0 ok, 1 deadline exceeded, 2 wrapped deadline, 3 other error (after a successful dial)
	vErrUpstream = errors.New("upstream closed early")
	vStatuses    []int // final status per handler run (inner first)
)

func vResetWorld() {
	v.Tag("proxy-world")
	vNodes = nil
	vSessOwner = map[*yamux.Session]string{}
	vHops, vHandlerRuns, vCaptured, vToken, vRoundTrip, vStatuses = 0, 0, nil, nil, 0, nil
	upstream.VerifOpened = nil
	upstream.VerifStreamCloses = 0
	upstream.VerifHopDials = nil
	upstream.VerifOpenOutcome = map[*yamux.Session]int{}
	upstream.VerifHopDialFail = map[string]bool{}
}

func vNewNodeW(i int, timeout time.Duration) *vNodeW {
	n := &vNodeW{id: fmt.Sprintf("n%d", i), addr: fmt.Sprintf("node%d:8000", i)}
	n.cs = cluster.NewState(&cluster.Node{ID: n.id, ProxyAddr: n.addr, AdminAddr: "admin"}, log.NewNopLogger())
	n.m = upstream.NewLoadBalancedManager(n.cs, nil)
	hp := NewHTTPProxy(n.m, timeout, log.NewNopLogger())
	n.srv = &Server{httpProxy: hp, tcpProxy: NewTCPProxy(n.m, hp, log.NewNopLogger()), logger: log.NewNopLogger()}
	vNodes = append(vNodes, n)
	return n
}

func (n *vNodeW) addUpstream(ep string) *yamux.Session {
	s := &yamux.Session{}
	vSessOwner[s] = n.id + "/" + ep
	n.m.AddConn(upstream.NewConnUpstream(ep, s))
	return s
}

func vHeaderClone(h http.Header) http.Header {
	out := http.Header{}
	for k, vs := range h {
		out[k] = append([]string(nil), vs...)
	}
	return out
}

var vHopByHop = []string{"Connection", "Proxy-Connection", "Keep-Alive", "Proxy-Authenticate", "Proxy-Authorization", "Te", "Trailer", "Transfer-Encoding", "Upgrade"}

// vRemoveHopByHop: RFC 7230 6.1 as implemented by httputil: headers named in
// Connection are removed, then the standard hop-by-hop headers.
func vRemoveHopByHop(h http.Header) {
	for _, f := range h["Connection"] {
		for _, name := range strings.Split(f, ",") {
			if name = strings.TrimSpace(name); name != "" {
				h.Del(name)
			}
		}
	}
	for _, name := range vHopByHop {
		h.Del(name)
	}
}

func vConnectionHasToken(h http.Header, token string) bool {
	for _, f := range h["Connection"] {
		for _, name := range strings.Split(f, ",") {
			if strings.EqualFold(strings.TrimSpace(name), token) {
				return true
			}
		}
	}
	return false
}

// vDispatch emulates the proxy port's router (server.go registerRoutes):
// GET /_piko/v1/tcp/:endpointID -> proxyTCPRoute, anything else -> proxyHTTPRoute,
// with the auth middleware's token (if any) already stored in the context.
func (n *vNodeW) vDispatch(r *http.Request) *ginstub.Writer {
	vHandlerRuns++
	if vHandlerRuns > len(vNodes)+2 {
		v.Fail("C06/handler-runs-bounded")
	}
	w := ginstub.NewWriter()
	c := ginstub.NewContext(r, w)
	if vToken != nil {
		c.Set(middleware.TokenContextKey, vToken)
	}
	if rest, ok := strings.CutPrefix(r.URL.Path, "/_piko/v1/tcp/"); ok && r.Method == "GET" && rest != "" && !strings.Contains(rest, "/") {
		ginstub.Of(c).Params["endpointID"] = rest
		n.srv.proxyTCPRoute(c)
	} else {
		n.srv.proxyHTTPRoute(c)
	}
	status := w.Code
	if s := ginstub.Of(c).Status; s != 0 && status == 0 {
		status = s
	}
	vStatuses = append(vStatuses, status)
	return w
}

func vNodeByAddr(addr string) *vNodeW {
	for _, n := range vNodes {
		if n.addr == addr {
			return n
		}
	}
	return nil
}

func vStubReverseProxy(p *httputil.ReverseProxy, rw http.ResponseWriter, req *http.Request) {
	out := new(http.Request)
	*out = *req
	out.Header = vHeaderClone(req.Header)
	u := *req.URL
	out.URL = &u
	p.Director(out)
	// reverseproxy.go: the upgrade type is read before the hop-by-hop headers
	// are removed (it needs the token "Upgrade" in some Connection line) and
	// is put back afterwards
	upType := ""
	if vConnectionHasToken(out.Header, "upgrade") {
		upType = out.Header.Get("Upgrade")
	}
	vRemoveHopByHop(out.Header)
	if upType != "" {
		out.Header.Set("Connection", "Upgrade")
		out.Header.Set("Upgrade", upType)
	}
	vCaptured = append(vCaptured, &vOutbound{in: req, out: out})
	tr := p.Transport.(*http.Transport)
	conn, err := tr.DialContext(out.Context(), "tcp", out.URL.Host)
	if err != nil {
		p.ErrorHandler(rw, out, err)
		return
	}
	switch vRoundTrip {
	case 1:
		p.ErrorHandler(rw, out, context.DeadlineExceeded)
		return
	case 2:
		p.ErrorHandler(rw, out, fmt.Errorf("round trip: %w", context.DeadlineExceeded))
		return
	case 3:
		p.ErrorHandler(rw, out, vErrUpstream)
		return
	}
	if hop, ok := conn.(*upstream.VerifHopConn); ok {
		vHops++
		node := vNodeByAddr(hop.Addr)
		if node == nil {
			rw.WriteHeader(http.StatusBadGateway)
			return
		}
		// what the other node receives
		in2 := &http.Request{Method: out.Method, URL: &url.URL{Path: out.URL.Path, RawPath: out.URL.RawPath, RawQuery: out.URL.RawQuery}, Host: out.Host, Header: vHeaderClone(out.Header), Body: out.Body}
		w2 := node.vDispatch(in2)
		rw.WriteHeader(w2.Code)
		return
	}
	rw.WriteHeader(http.StatusOK)
}

var _ = gin.New
