//go:build verif

package proxy

import (
	"net/http"
	"net/url"
	"strings"
	"time"

	"github.com/andydunstall/yamux"

	"github.com/andydunstall/piko/pkg/auth"
	"github.com/andydunstall/piko/server/cluster"
	"github.com/andydunstall/piko/server/upstream"
	v "github.com/andydunstall/piko/zzverif"
)

var vEndpoints = []string{"e0", "e1"}

// vHosts: representative Host header shapes (parsed by the real
// net.SplitHostPort / net.ParseIP / strings functions).
var vHosts = []struct {
	host  string
	label string // endpoint the host names ("" = none)
}{
	{"e0.piko.example.com", "e0"},
	{"e1.piko.example.com:8000", "e1"},
	{"127.0.0.1:8000", ""},
	{"localhost", ""},
	{"", ""},
	{"[::1]:443", ""},
}

// vBuildCluster builds N nodes, places up to one upstream per (node,
// endpoint), and fills every node's routing table either with the settled
// truth or with an arbitrary (possibly wrong) belief about every other node.
func vBuildCluster(N int, settled bool, timeout time.Duration) {
	vResetWorld()
	v.Tag("hop") // dials to other nodes are replaced by marker connections
	for i := 0; i < N; i++ {
		vNewNodeW(i, timeout)
	}
	placed := map[string]int{}
	for _, n := range vNodes {
		for _, ep := range vEndpoints {
			if v.Choose("upstream."+n.id+"."+ep, 2) == 1 {
				n.addUpstream(ep)
				placed[n.id+"/"+ep] = 1
			}
		}
	}
	for _, n := range vNodes {
		if settled && v.Param("ghosts", 0) == 1 {
			// a node that crashed or left and has not expired yet may still be
			// listed (advertising anything); it must simply be skipped
			switch v.Choose("ghost."+n.id, 3) {
			case 1:
				n.cs.AddNode(&cluster.Node{ID: "ghost", ProxyAddr: "ghost:8000", AdminAddr: "admin", Status: cluster.NodeStatusUnreachable, Endpoints: map[string]int{"e0": 1, "e1": 1}})
			case 2:
				n.cs.AddNode(&cluster.Node{ID: "ghost", ProxyAddr: "ghost:8000", AdminAddr: "admin", Status: cluster.NodeStatusLeft, Endpoints: map[string]int{"e0": 1, "e1": 1}})
			}
		}
		for _, o := range vNodes {
			if o == n {
				continue
			}
			node := &cluster.Node{ID: o.id, ProxyAddr: o.addr, AdminAddr: "admin", Status: cluster.NodeStatusActive, Endpoints: map[string]int{}}
			if settled {
				for _, ep := range vEndpoints {
					if c := placed[o.id+"/"+ep]; c > 0 {
						node.Endpoints[ep] = c
					}
				}
			} else {
				if v.Choose("view."+n.id+"."+o.id+".unreachable", 2) == 1 {
					node.Status = cluster.NodeStatusUnreachable
				}
				for _, ep := range vEndpoints {
					if v.Choose("view."+n.id+"."+o.id+"."+ep, 2) == 1 {
						node.Endpoints[ep] = 1
					}
				}
			}
			n.cs.AddNode(node)
		}
	}
}

type vClientReq struct {
	r       *http.Request
	tcp     bool
	wantEP  string // endpoint the entry node must derive ("" = none)
	hdr     string
	fwd     bool
	connHdr string
	hostIdx int
	pathEP  string
}

// vClientRequest builds an arbitrary client request: HTTP with a symbolic
// x-piko-endpoint header (or none) and a representative Host, or the TCP
// route with a path parameter; optional client-supplied x-piko-forward and
// Connection headers.
func vClientRequest(allowConn bool) *vClientReq {
	q := &vClientReq{}
	h := http.Header{}
	h.Set("Accept", "text/plain")
	h.Set("User-Agent", v.Str("user-agent"))
	q.tcp = v.Choose("route", 2) == 1
	q.hostIdx = v.Choose("host", v.Param("hosts", len(vHosts)))
	path := "/some/path"
	if q.tcp {
		q.pathEP = vEndpoints[v.Choose("path-endpoint", len(vEndpoints))]
		path = "/_piko/v1/tcp/" + q.pathEP
		q.wantEP = q.pathEP
		h.Set("Upgrade", "websocket")
		h.Set("Connection", "Upgrade")
	} else {
		if v.Choose("endpoint-header", 2) == 1 {
			q.hdr = v.Str("x-piko-endpoint")
			h.Set("x-piko-endpoint", q.hdr)
		}
	}
	switch v.Choose("client-forward-header", v.Param("fwdvals", 3)) {
	case 1:
		h.Set("x-piko-forward", "true")
		q.fwd = true
	case 2:
		h.Set("x-piko-forward", "false")
	}
	if allowConn && !q.tcp {
		// (header names are case-insensitive; the quick tier takes one spelling
		// of each control header, the thorough tier all of these)
		q.connHdr = []string{"", "close", "x-piko-forward", "X-Piko-Endpoint", "x-piko-endpoint", "X-PIKO-FORWARD", "keep-alive, x-piko-forward"}[v.Choose("connection-header", v.Param("connvals", 4))]
		if q.connHdr != "" {
			h.Set("Connection", q.connHdr)
		}
	}
	q.r = &http.Request{Method: "GET", URL: &url.URL{Path: path, RawQuery: "a=1&b=%20"}, Host: vHosts[q.hostIdx].host, Header: h}
	return q
}

// vDerived: the endpoint the addressing rules give for an HTTP request.
func (q *vClientReq) vDerived() string {
	if q.tcp {
		return q.pathEP
	}
	if q.hdr != "" {
		return q.hdr
	}
	return vHosts[q.hostIdx].label
}

func vHasLocal(n *vNodeW, ep string) bool { return upstream.VerifRegistered(n.m, ep) > 0 }

// vCheckDeliveries asserts that every delivery went to an upstream of the
// endpoint the entry node derived; returns the number of deliveries.
func vCheckDeliveries(tag, ep string) int {
	for _, s := range upstream.VerifOpened {
		owner := vSessOwner[s]
		_, sessEP, _ := strings.Cut(owner, "/")
		v.Assert(tag+"/delivered-only-to-addressed-endpoint", sessEP == ep)
	}
	return len(upstream.VerifOpened)
}

// Harness_C01_settled: routing tables mirror the real placement.
func Harness_C01_settled() {
	N := v.Param("N", 2)
	vBuildCluster(N, true, 0)
	q := vClientRequest(v.Param("conn", 0) == 1)
	entry := vNodes[v.Choose("entry", N)]
	ep := q.vDerived()
	w := entry.vDispatch(q.r)
	status := vStatuses[len(vStatuses)-1]
	_ = w

	n := vCheckDeliveries("C01/settled", ep)
	v.Assert("C01/settled/at-most-one-delivery", n <= 1)
	if ep == "" {
		v.Assert("C01/settled/no-endpoint-is-400", status == http.StatusBadRequest && n == 0)
		v.Cover("no-endpoint")
		return
	}
	anywhere := false
	for _, node := range vNodes {
		anywhere = anywhere || vHasLocal(node, ep)
	}
	servedBy := anywhere
	if q.fwd {
		// a request that claims to be forwarded already is only served locally
		servedBy = vHasLocal(entry, ep)
	}
	if servedBy {
		v.Assert("C01/settled/served-when-an-upstream-exists", n == 1)
		if q.tcp {
			// the websocket upgrade is stubbed to fail after the upstream was dialled
			v.Cover("tcp-delivered")
		} else {
			v.Assert("C01/settled/status-ok", status == http.StatusOK)
			v.Cover("http-delivered")
		}
		if !vHasLocal(entry, ep) {
			v.Cover("delivered-through-other-node")
		}
	} else {
		v.Assert("C01/settled/502-when-no-upstream", n == 0 && status == http.StatusBadGateway)
		v.Cover("no-upstream-502")
	}
}

// Harness_C06_hops: arbitrary, mutually inconsistent routing tables.
func Harness_C06_hops() {
	N := v.Param("N", 2)
	vBuildCluster(N, false, 0)
	q := vClientRequest(v.Param("conn", 1) == 1)
	entry := vNodes[v.Choose("entry", N)]
	ep := q.vDerived()
	entry.vDispatch(q.r)
	status := vStatuses[len(vStatuses)-1]

	v.Assert("C06/at-most-one-hop", vHops <= 1)
	v.Assert("C06/at-most-two-handler-runs", vHandlerRuns <= 2)
	n := vCheckDeliveries("C06", ep)
	v.Assert("C06/at-most-one-delivery", n <= 1)
	if ep != "" && vHasLocal(entry, ep) {
		v.Assert("C06/local-upstream-preferred", vHops == 0 && n == 1 && strings.HasPrefix(vSessOwner[upstream.VerifOpened[0]], entry.id+"/"))
		v.Cover("served-locally")
	}
	if q.fwd {
		v.Assert("C06/forwarded-request-never-forwarded-again", vHops == 0)
		if ep != "" && !vHasLocal(entry, ep) {
			v.Assert("C06/forwarded-without-local-upstream-is-502", status == http.StatusBadGateway)
			v.Cover("forwarded-502")
		}
	}
	if vHops == 1 {
		v.Cover("one-hop")
		// the second node saw the forward marker
		if len(vCaptured) >= 1 {
			v.Assert("C06/hop-carries-forward-marker", vCaptured[0].in.Header.Get("x-piko-forward") == "true")
		}
	}
}

// Harness_C10_same_endpoint: with an authenticated token that lists permitted
// endpoints, a request is delivered only to an upstream of a permitted
// endpoint - whichever way the target was named - and is answered 401
// otherwise.
func Harness_C10_same_endpoint() {
	N := v.Param("N", 2)
	vBuildCluster(N, true, 0)
	q := vClientRequest(false)
	vToken = &auth.Token{}
	nclaims := v.Choose("claims", 3)
	for i := 0; i < nclaims; i++ {
		vToken.Endpoints = append(vToken.Endpoints, v.Str("claim"))
	}
	entry := vNodes[v.Choose("entry", N)]
	ep := q.vDerived()
	entry.vDispatch(q.r)
	status := vStatuses[len(vStatuses)-1]
	permitted := nclaims == 0
	for _, c := range vToken.Endpoints {
		permitted = v.Or(permitted, c == ep)
	}
	for _, s := range upstream.VerifOpened {
		_, sessEP, _ := strings.Cut(vSessOwner[s], "/")
		ok := nclaims == 0
		for _, c := range vToken.Endpoints {
			ok = v.Or(ok, c == sessEP)
		}
		v.Assert("C10/delivered-only-to-permitted-endpoint", ok)
		v.Assert("C10/checked-endpoint-is-routed-endpoint", sessEP == ep)
		v.Cover("permitted-delivery")
	}
	if ep != "" {
		v.Assert("C10/not-permitted-is-401", v.Implies(!permitted, status == http.StatusUnauthorized))
		v.Assert("C10/not-permitted-reaches-nothing", v.Implies(!permitted, len(upstream.VerifOpened) == 0 && vHops == 0))
		v.Assert("C10/permitted-is-not-401", v.Implies(permitted, status != http.StatusUnauthorized))
		if status == http.StatusUnauthorized {
			v.Cover("refused-401")
		}
	}
}

var _ = yamux.ErrSessionShutdown
