//go:build verif

package proxy

import (
	"net/http"
	"net/url"
	"strings"
	"time"

	"github.com/andydunstall/yamux"

	"github.com/andydunstall/piko/server/cluster"
	"github.com/andydunstall/piko/server/upstream"
	v "github.com/andydunstall/piko/zzverif"
)

// vBody is a request body object (identity only).
type vBody struct{}

func (b *vBody) Read(p []byte) (int, error) { return 0, nil }
func (b *vBody) Close() error               { return nil }

// Harness_C08_transparent: a single node serving a request locally. What
// piko hands to the reverse proxy is the client's request plus only the
// forward marker; the Director only redirects scheme/host; the timeout is
// attached exactly when configured and the request is not a websocket
// upgrade; every failure maps to 400/502/504.
func Harness_C08_transparent() {
	timeout := time.Duration(v.I64("timeout"))
	v.Assume(timeout >= 0)
	vResetWorld()
	v.Tag("hop")
	n := vNewNodeW(0, timeout)
	var sess *yamux.Session
	hasUpstream := v.Choose("upstream", 2) == 1
	if hasUpstream {
		sess = n.addUpstream("e0")
		upstream.VerifOpenOutcome[sess] = v.Choose("dial-outcome", 3)
	}
	vRoundTrip = v.Choose("round-trip-outcome", 4)

	method := []string{"GET", "POST", "DELETE"}[v.Choose("method", 3)]
	path := v.Str("path")
	v.Assume(!strings.HasPrefix(path, "/_piko"))
	rawq := v.Str("query")
	h := http.Header{}
	ua := v.Str("user-agent")
	custom := v.Str("x-custom")
	h.Set("User-Agent", ua)
	h.Set("X-Custom", custom)
	upgrade := []string{"", "websocket", "h2c"}[v.Choose("upgrade", 3)]
	if upgrade != "" {
		h.Set("Upgrade", upgrade)
	}
	// the client's Connection header: absent, one line, several options on one
	// line, options spread over several header lines, and a line that also
	// names one of piko's control headers
	connLines := [][]string{nil, {"Upgrade"}, {"keep-alive, Upgrade"}, {"keep-alive", "Upgrade"}, {"x-piko-endpoint, Upgrade"}, {"close"}}[v.Choose("connection", 6)]
	var connTokens []string
	for _, l := range connLines {
		h.Add("Connection", l)
		for _, t := range strings.Split(l, ",") {
			if t = strings.TrimSpace(t); t != "" && !strings.EqualFold(t, "x-piko-endpoint") && !strings.EqualFold(t, "x-piko-forward") {
				connTokens = append(connTokens, t)
			}
		}
	}
	hostIdx := v.Choose("host", 3)
	addressed := v.Choose("endpoint-header", 2) == 1
	if addressed {
		h.Set("x-piko-endpoint", "e0")
	}
	body := &vBody{}
	r := &http.Request{Method: method, URL: &url.URL{Path: path, RawPath: v.Str("rawpath"), RawQuery: rawq}, Host: vHosts[hostIdx].host, Header: h, Body: body}
	ep := "e0"
	if !addressed {
		ep = vHosts[hostIdx].label
	}
	nHeadersBefore := len(h)

	n.vDispatch(r)
	status := vStatuses[len(vStatuses)-1]

	if ep == "" {
		v.Assert("C08/no-endpoint-400", status == http.StatusBadRequest && len(vCaptured) == 0)
		v.Cover("400")
		return
	}
	if ep != "e0" || !hasUpstream {
		v.Assert("C08/no-upstream-502", status == http.StatusBadGateway && len(vCaptured) == 0)
		v.Cover("502-no-upstream")
		return
	}
	v.Assert("C08/proxied-once", len(vCaptured) == 1)
	in, out := vCaptured[0].in, vCaptured[0].out
	// transparency of what piko passes on
	v.Assert("C08/method-unchanged", in.Method == method)
	v.Assert("C08/path-unchanged", in.URL.Path == path && in.URL.RawPath == r.URL.RawPath)
	v.Assert("C08/query-unchanged", in.URL.RawQuery == rawq)
	v.Assert("C08/host-unchanged", in.Host == vHosts[hostIdx].host)
	v.Assert("C08/body-unchanged", in.Body == body)
	v.Assert("C08/headers-kept", in.Header.Get("User-Agent") == ua && in.Header.Get("X-Custom") == custom && in.Header.Get("Upgrade") == upgrade)
	// besides the forward marker piko adds nothing and removes nothing; of the
	// Connection header only the names of its own control headers may go
	want := nHeadersBefore + 1
	if len(connLines) > 0 && len(connTokens) == 0 {
		want--
	}
	v.Assert("C08/only-forward-marker-added", len(in.Header) == want && in.Header.Get("x-piko-forward") == "true")
	var gotTokens []string
	for _, l := range in.Header["Connection"] {
		for _, t := range strings.Split(l, ",") {
			if t = strings.TrimSpace(t); t != "" {
				gotTokens = append(gotTokens, t)
			}
		}
	}
	v.Assert("C08/connection-options-kept", len(gotTokens) == len(connTokens))
	for i := range gotTokens {
		if i < len(connTokens) {
			v.Assert("C08/connection-options-kept", gotTokens[i] == connTokens[i])
		}
	}
	// Director: only scheme and host of the outbound URL
	v.Assert("C08/director-scheme-host", out.URL.Scheme == "http" && out.URL.Host == "e0")
	v.Assert("C08/director-keeps-rest", out.URL.Path == path && out.URL.RawPath == r.URL.RawPath && out.URL.RawQuery == rawq && out.Method == method && out.Host == vHosts[hostIdx].host)
	v.Assert("C08/director-keeps-rest", out.URL.Opaque == "" && out.URL.User == nil && !out.URL.ForceQuery && out.URL.Fragment == "" && out.Body == body)
	// a protocol upgrade the client asked for reaches the upstream as one
	if upgrade != "" && vConnectionHasToken(h, "upgrade") {
		v.Assert("C08/upgrade-reaches-upstream", out.Header.Get("Upgrade") == upgrade && vConnectionHasToken(out.Header, "upgrade"))
		v.Cover("upgrade-forwarded")
	}
	v.Assert("C08/end-to-end-headers-reach-upstream", out.Header.Get("User-Agent") == ua && out.Header.Get("X-Custom") == custom)
	// timeout attached iff configured and not a websocket upgrade, with the configured duration
	d, hasTimeout := v.CtxTimeout(in.Context())
	if upgrade == "websocket" {
		v.Assert("C08/no-timeout-on-websocket", !hasTimeout)
		v.Cover("websocket")
	} else {
		v.Assert("C08/timeout-iff-configured", hasTimeout == (timeout != 0))
		if hasTimeout {
			v.Assert("C08/timeout-value", d == timeout)
			v.Cover("timeout-attached")
		}
	}
	// failure mapping
	switch upstream.VerifOpenOutcome[sess] {
	case 1: // go-away: 502 and the upstream is dropped
		v.Assert("C08/go-away-502", status == http.StatusBadGateway)
		v.Assert("C08/go-away-removes-upstream", upstream.VerifRegistered(n.m, "e0") == 0)
		v.Cover("go-away")
		return
	case 2:
		v.Assert("C08/dial-error-502", status == http.StatusBadGateway)
		v.Assert("C08/dial-error-keeps-upstream", upstream.VerifRegistered(n.m, "e0") == 1)
		v.Cover("dial-error")
		return
	}
	switch vRoundTrip {
	case 0:
		v.Assert("C08/success-relayed", status == http.StatusOK)
		v.Cover("200")
	case 1, 2:
		v.Assert("C08/deadline-504", status == http.StatusGatewayTimeout)
		v.Cover("504")
	case 3:
		v.Assert("C08/upstream-error-502", status == http.StatusBadGateway)
		v.Cover("502-upstream-error")
	}
	v.Assert("C08/no-response-rewriting", n.srv.httpProxy.proxy.ModifyResponse == nil && n.srv.httpProxy.proxy.Rewrite == nil)
}

// Harness_C08_forwarded: the request enters a node without a local upstream
// and is served through the node that has one. The first node applies the
// configured timeout to the hop exactly like to a local upstream (so an
// answer that never comes is a 504, not a hang), the second node receives the
// request unchanged apart from the forward marker, and failures on either
// node map to 502/504.
func Harness_C08_forwarded() {
	timeout := time.Duration(v.I64("timeout"))
	v.Assume(timeout >= 0)
	vResetWorld()
	v.Tag("hop")
	a := vNewNodeW(0, timeout)
	b := vNewNodeW(1, timeout)
	sess := b.addUpstream("e0")
	upstream.VerifOpenOutcome[sess] = v.Choose("dial-outcome", 3)
	a.cs.AddNode(&cluster.Node{ID: b.id, ProxyAddr: b.addr, AdminAddr: "admin", Status: cluster.NodeStatusActive, Endpoints: map[string]int{"e0": 1}})
	b.cs.AddNode(&cluster.Node{ID: a.id, ProxyAddr: a.addr, AdminAddr: "admin", Status: cluster.NodeStatusActive, Endpoints: map[string]int{}})
	hopFails := v.Choose("hop-dial-fails", 2) == 1
	if hopFails {
		upstream.VerifHopDialFail[b.addr] = true
	}
	vRoundTrip = 0

	method := []string{"GET", "POST"}[v.Choose("method", 2)]
	path := v.Str("path")
	v.Assume(!strings.HasPrefix(path, "/_piko"))
	rawq := v.Str("query")
	h := http.Header{}
	custom := v.Str("x-custom")
	h.Set("X-Custom", custom)
	upgrade := []string{"", "websocket"}[v.Choose("upgrade", 2)]
	if upgrade != "" {
		h.Set("Upgrade", upgrade)
		h.Set("Connection", "Upgrade")
	}
	byHeader := v.Choose("endpoint-header", 2) == 1
	host := "e0.piko.example.com"
	if byHeader {
		h.Set("x-piko-endpoint", "e0")
		host = "example.com"
	}
	body := &vBody{}
	r := &http.Request{Method: method, URL: &url.URL{Path: path, RawPath: v.Str("rawpath"), RawQuery: rawq}, Host: host, Header: h, Body: body}

	a.vDispatch(r)
	status := vStatuses[len(vStatuses)-1]
	upstream.VerifHopDialFail[b.addr] = false

	v.Assert("C08/forwarded/first-node-proxies-once", len(vCaptured) >= 1)
	hop := vCaptured[0]
	// the hop carries the configured timeout (not for websocket upgrades)
	d, hasTimeout := v.CtxTimeout(hop.in.Context())
	if upgrade == "websocket" {
		v.Assert("C08/forwarded/no-timeout-on-websocket", !hasTimeout)
	} else {
		v.Assert("C08/forwarded/timeout-iff-configured", hasTimeout == (timeout != 0))
		if hasTimeout {
			v.Assert("C08/forwarded/timeout-value", d == timeout)
			v.Cover("hop-timeout-attached")
		}
	}
	v.Assert("C08/forwarded/hop-targets-the-other-node", len(upstream.VerifHopDials) == 1 && upstream.VerifHopDials[0] == b.addr)
	if hopFails {
		v.Assert("C08/forwarded/unreachable-node-502", status == http.StatusBadGateway && len(vCaptured) == 1)
		v.Cover("hop-dial-failed")
		return
	}
	// the second node received the same request plus the marker and proxied it
	// to its upstream
	v.Assert("C08/forwarded/second-node-proxies-once", len(vCaptured) == 2 && vHops == 1)
	in2, out2 := vCaptured[1].in, vCaptured[1].out
	v.Assert("C08/forwarded/method-path-query-host-unchanged", in2.Method == method && in2.URL.Path == path && in2.URL.RawPath == r.URL.RawPath && in2.URL.RawQuery == rawq && in2.Host == host)
	v.Assert("C08/forwarded/body-unchanged", in2.Body == body)
	v.Assert("C08/forwarded/headers-unchanged", in2.Header.Get("X-Custom") == custom && in2.Header.Get("Upgrade") == upgrade && in2.Header.Get("x-piko-forward") == "true")
	if byHeader {
		v.Assert("C08/forwarded/endpoint-header-kept", in2.Header.Get("x-piko-endpoint") == "e0")
	}
	v.Assert("C08/forwarded/upstream-sees-request-unchanged", out2.Method == method && out2.URL.Path == path && out2.URL.RawPath == r.URL.RawPath && out2.URL.RawQuery == rawq && out2.Host == host && out2.Header.Get("X-Custom") == custom && out2.Header.Get("Upgrade") == upgrade)
	switch upstream.VerifOpenOutcome[sess] {
	case 0:
		v.Assert("C08/forwarded/success-relayed", status == http.StatusOK)
		v.Cover("forwarded-200")
	default:
		v.Assert("C08/forwarded/upstream-failure-502", status == http.StatusBadGateway)
		v.Cover("forwarded-502")
	}
}
