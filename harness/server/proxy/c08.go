//go:build verif

package proxy

import (
	"net/http"
	"net/url"
	"strings"
	"time"

	"github.com/andydunstall/yamux"

	"github.com/andydunstall/piko/server/upstream"
	v "github.com/andydunstall/piko/zzverif"
)

// vBody is a request body object (identity only).
type vBody struct{}

func (b *vBody) Read(p []byte) (int, error) { return 0, nil }
func (b *vBody) Close() error               { return nil }

// Harness_C08_transparent: a single node serving a request locally. What
// piko hands to the reverse proxy is the client's request plus only the
// forward marker; the Director only redirects scheme/host; the timeout is
// attached exactly when configured and the request is not a websocket
// upgrade; every failure maps to 400/502/504.
func Harness_C08_transparent() {
	timeout := time.Duration(v.I64("timeout"))
	v.Assume(timeout >= 0)
	vResetWorld()
	v.Tag("hop")
	n := vNewNodeW(0, timeout)
	var sess *yamux.Session
	hasUpstream := v.Choose("upstream", 2) == 1
	if hasUpstream {
		sess = n.addUpstream("e0")
		upstream.VerifOpenOutcome[sess] = v.Choose("dial-outcome", 3)
	}
	vRoundTrip = v.Choose("round-trip-outcome", 4)

	method := []string{"GET", "POST", "DELETE"}[v.Choose("method", 3)]
	path := v.Str("path")
	v.Assume(!strings.HasPrefix(path, "/_piko"))
	rawq := v.Str("query")
	h := http.Header{}
	ua := v.Str("user-agent")
	custom := v.Str("x-custom")
	h.Set("User-Agent", ua)
	h.Set("X-Custom", custom)
	upgrade := []string{"", "websocket", "h2c"}[v.Choose("upgrade", 3)]
	if upgrade != "" {
		h.Set("Upgrade", upgrade)
	}
	hostIdx := v.Choose("host", 3)
	addressed := v.Choose("endpoint-header", 2) == 1
	if addressed {
		h.Set("x-piko-endpoint", "e0")
	}
	body := &vBody{}
	r := &http.Request{Method: method, URL: &url.URL{Path: path, RawPath: v.Str("rawpath"), RawQuery: rawq}, Host: vHosts[hostIdx].host, Header: h, Body: body}
	ep := "e0"
	if !addressed {
		ep = vHosts[hostIdx].label
	}
	nHeadersBefore := len(h)

	n.vDispatch(r)
	status := vStatuses[len(vStatuses)-1]

	if ep == "" {
		v.Assert("C08/no-endpoint-400", status == http.StatusBadRequest && len(vCaptured) == 0)
		v.Cover("400")
		return
	}
	if ep != "e0" || !hasUpstream {
		v.Assert("C08/no-upstream-502", status == http.StatusBadGateway && len(vCaptured) == 0)
		v.Cover("502-no-upstream")
		return
	}
	v.Assert("C08/proxied-once", len(vCaptured) == 1)
	in, out := vCaptured[0].in, vCaptured[0].out
	// transparency of what piko passes on
	v.Assert("C08/method-unchanged", in.Method == method)
	v.Assert("C08/path-unchanged", in.URL.Path == path && in.URL.RawPath == r.URL.RawPath)
	v.Assert("C08/query-unchanged", in.URL.RawQuery == rawq)
	v.Assert("C08/host-unchanged", in.Host == vHosts[hostIdx].host)
	v.Assert("C08/body-unchanged", in.Body == body)
	v.Assert("C08/headers-kept", in.Header.Get("User-Agent") == ua && in.Header.Get("X-Custom") == custom && in.Header.Get("Upgrade") == upgrade)
	v.Assert("C08/only-forward-marker-added", len(in.Header) == nHeadersBefore+1 && in.Header.Get("x-piko-forward") == "true")
	// Director: only scheme and host of the outbound URL
	v.Assert("C08/director-scheme-host", out.URL.Scheme == "http" && out.URL.Host == "e0")
	v.Assert("C08/director-keeps-rest", out.URL.Path == path && out.URL.RawQuery == rawq && out.Method == method && out.Host == vHosts[hostIdx].host)
	// timeout attached iff configured and not a websocket upgrade, with the configured duration
	d, hasTimeout := v.CtxTimeout(in.Context())
	if upgrade == "websocket" {
		v.Assert("C08/no-timeout-on-websocket", !hasTimeout)
		v.Cover("websocket")
	} else {
		v.Assert("C08/timeout-iff-configured", hasTimeout == (timeout != 0))
		if hasTimeout {
			v.Assert("C08/timeout-value", d == timeout)
			v.Cover("timeout-attached")
		}
	}
	// failure mapping
	switch upstream.VerifOpenOutcome[sess] {
	case 1: // go-away: 502 and the upstream is dropped
		v.Assert("C08/go-away-502", status == http.StatusBadGateway)
		v.Assert("C08/go-away-removes-upstream", upstream.VerifRegistered(n.m, "e0") == 0)
		v.Cover("go-away")
		return
	case 2:
		v.Assert("C08/dial-error-502", status == http.StatusBadGateway)
		v.Assert("C08/dial-error-keeps-upstream", upstream.VerifRegistered(n.m, "e0") == 1)
		v.Cover("dial-error")
		return
	}
	switch vRoundTrip {
	case 0:
		v.Assert("C08/success-relayed", status == http.StatusOK)
		v.Cover("200")
	case 1, 2:
		v.Assert("C08/deadline-504", status == http.StatusGatewayTimeout)
		v.Cover("504")
	case 3:
		v.Assert("C08/upstream-error-502", status == http.StatusBadGateway)
		v.Cover("502-upstream-error")
	}
	v.Assert("C08/no-response-rewriting", n.srv.httpProxy.proxy.ModifyResponse == nil && n.srv.httpProxy.proxy.Rewrite == nil)
}
