//go:build verif

package proxy

import (
	"github.com/andydunstall/piko/pkg/auth"
	"github.com/andydunstall/piko/pkg/log"
	"github.com/andydunstall/piko/server/cluster"
	"github.com/andydunstall/piko/server/config"
	"github.com/andydunstall/piko/server/upstream"
	v "github.com/andydunstall/piko/zzverif"
	"github.com/andydunstall/piko/zzverif/ginstub"
)

// Harness_C09_order_proxy: on the proxy port the auth middleware is installed
// before every route (the TCP route and the catch-all HTTP route) on the one
// engine the server uses, exactly when a verifier is configured.
func Harness_C09_order_proxy() {
	ginstub.Reset()
	withAuth := v.Choose("auth", 2) == 1
	var ver *auth.MultiTenantVerifier
	if withAuth {
		ver = auth.NewMultiTenantVerifier(nil, nil)
	}
	cs := cluster.NewState(&cluster.Node{ID: "local"}, log.NewNopLogger())
	m := upstream.NewLoadBalancedManager(cs, nil)
	NewServer(m, config.ProxyConfig{}, nil, ver, nil, log.NewNopLogger())
	authIdx, firstRoute, routes, engines := ginstub.AuthOrder()
	v.Assert("C09/order/proxy/one-engine", engines == 1)
	v.Assert("C09/order/proxy/routes-registered", routes == 2 && firstRoute >= 0)
	if withAuth {
		v.Assert("C09/order/proxy/auth-before-every-route", authIdx >= 0 && authIdx < firstRoute)
		v.Cover("proxy-auth")
	} else {
		v.Assert("C09/order/proxy/no-auth-without-verifier", authIdx == -1)
		v.Cover("proxy-open")
	}
}
