//go:build verif

package proxy

import (
	"github.com/andydunstall/piko/pkg/log"
	v "github.com/andydunstall/piko/zzverif"
	"github.com/andydunstall/piko/zzverif/vnet"
)

// Harness_C07_forward_server: the server's TCP tunnel pump
// (TCPProxy.forward: two copy goroutines and a WaitGroup) between two model
// connections, under every schedule of the two goroutines (thread model:
// context switches at every Read, Write and Close, bounded pre-emptions). A
// schedule in which the pump cannot return is reported as a deadlock.
func Harness_C07_forward_server() {
	M, L := v.Param("M", 2), v.Param("L", 2)
	up, down := &vnet.Conn{Name: "upstream"}, &vnet.Conn{Name: "downstream"}
	fromUp := vnet.Script(up, "up", M, L)
	fromDown := vnet.Script(down, "down", M, L)
	vnet.Closer(up, down)
	p := &TCPProxy{logger: log.NewNopLogger()}

	p.forward(up, down)

	vnet.CheckPump("C07/forward", up, down, fromUp, fromDown)
}
