//go:build verif

package proxy

import (
	"net/http"
	"net/url"

	"github.com/andydunstall/piko/pkg/log"
	"github.com/andydunstall/piko/server/upstream"
	v "github.com/andydunstall/piko/zzverif"
	"github.com/andydunstall/piko/zzverif/vnet"
)

// Harness_C07_forward_server: the server's TCP tunnel pump
// (TCPProxy.forward: two copy goroutines and a WaitGroup) between two model
// connections, under every schedule of the two goroutines (thread model:
// context switches at every Read, Write and Close, bounded pre-emptions). A
// schedule in which the pump cannot return is reported as a deadlock.
func Harness_C07_forward_server() {
	M, L := v.Param("M", 2), v.Param("L", 2)
	up, down := &vnet.Conn{Name: "upstream"}, &vnet.Conn{Name: "downstream"}
	fromUp := vnet.Script(up, "up", M, L)
	fromDown := vnet.Script(down, "down", M, L)
	vnet.Closer(up, down)
	// (built by the real constructor: whatever it sets up is in force)
	p := NewTCPProxy(nil, nil, log.NewNopLogger())

	p.forward(up, down)

	vnet.CheckPump("C07/forward", up, down, fromUp, fromDown)
}

// Harness_C07_tcp_setup: setting a tunnel up on the TCP route. Whatever stops
// the set-up - no upstream, the upstream gone or unreachable, the client's
// request not being a WebSocket upgrade after the upstream leg was already
// opened - no leg stays open: every upstream stream that was opened is
// closed again, and the client gets 502 when no upstream could be reached.
func Harness_C07_tcp_setup() {
	vResetWorld()
	v.Tag("hop")
	n := vNewNodeW(0, 0)
	hasUpstream := v.Choose("upstream", 2) == 1
	outcome := 0
	if hasUpstream {
		sess := n.addUpstream("e0")
		outcome = v.Choose("dial-outcome", 3)
		upstream.VerifOpenOutcome[sess] = outcome
	}
	h := http.Header{}
	if v.Choose("upgrade-headers", 2) == 1 {
		h.Set("Upgrade", "websocket")
		h.Set("Connection", "Upgrade")
	}
	r := &http.Request{Method: "GET", URL: &url.URL{Path: "/_piko/v1/tcp/e0"}, Host: "piko.example.com", Header: h}
	// (the upgrade itself is stubbed to fail: the set-up stops after the dial)
	n.vDispatch(r)
	status := vStatuses[len(vStatuses)-1]
	opened := len(upstream.VerifOpened)
	v.Assert("C07/setup/every-opened-leg-released", upstream.VerifStreamCloses == opened)
	if !hasUpstream {
		v.Assert("C07/setup/no-upstream-502", status == http.StatusBadGateway && opened == 0)
		v.Cover("no-upstream")
		return
	}
	switch outcome {
	case 0:
		v.Assert("C07/setup/leg-opened-then-released", opened == 1 && upstream.VerifStreamCloses == 1)
		v.Cover("upgrade-failed-after-dial")
	default:
		v.Assert("C07/setup/unreachable-upstream-502", status == http.StatusBadGateway && opened == 0)
		v.Cover("upstream-unreachable")
	}
}
