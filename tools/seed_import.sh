#!/bin/bash
# seed_import.sh <PROP> <m1|m2> <checks...>
# Confirms a sub-agent mutation in a scratch worktree (build, existing suite
# passes, demo fails with / passes without), stores it under /verif/seeded,
# then runs the given checks against /repo with the patch applied and reverts.
set -u
P=$1; M=$2; shift 2
SRC=${SRCROOT:-/tmp/wt-$P}/MUTATION/$M
DST=/verif/seeded/${DSTNAME:-$P-$M}
export GOFLAGS=-mod=mod GOPROXY=off
mkdir -p $DST
cp $SRC/patch.diff $DST/patch.diff
cp $SRC/demo_test.go $DST/demo_test.go
cp $SRC/README.md $DST/agent_README.md
TARGET=$(grep -m1 -oE "[a-z]+(/[a-z0-9_]+)*/[a-z0-9_]+_test\.go" $SRC/demo_test.go | head -1)
WT=/tmp/wtv-$P-$M-$$
git -C /repo worktree add -q $WT HEAD
cd $WT
git apply $DST/patch.diff || { echo "patch does not apply"; exit 2; }
B=$(go build ./... 2>&1 | tail -3); BUILD=$?
SUITE=$(go test -vet=off -count=1 ./... 2>&1 | grep -v "no test files" | grep -c "^FAIL\|^---\ FAIL")
cp $DST/demo_test.go $WT/$TARGET
PKG=./$(dirname $TARGET)
go test -vet=off -count=1 $PKG > /tmp/demo-with.log 2>&1; WITH=$?
git checkout -q -- . ; 
go test -vet=off -count=1 $PKG > /tmp/demo-without.log 2>&1; WITHOUT=$?
cd $WT
git apply $DST/patch.diff || { echo "cannot re-apply"; exit 2; }
echo "confirm: build_failed=$([ -n "$B" ] && echo 1 || echo 0) suite_failures=$SUITE demo_with_mutation_exit=$WITH demo_without_exit=$WITHOUT"
# run the checks against the scratch worktree carrying the patch (never /repo)
RES=""
for c in "$@"; do
  OUT=$(cd /verif && GOSYM_REPO=$WT timeout 900 ./bin/gosym check $c --tier quick 2>/dev/null | grep -E "^(VIOLATION|HELD|UNDECIDED|KNOWN)" | cut -c1-220)
  RC=$(echo "$OUT" | grep -c "^VIOLATION")
  echo "--- check $c: violations=$RC"; echo "$OUT" | head -4
  RES="$RES $c:$RC"
done
cd /
git -C /repo worktree remove --force $WT
cat > $DST/meta.json <<EOM
{"property":"$P","mutation":"$M","demo_target":"$TARGET","confirmed":{"suite_failures_with_mutation":$SUITE,"demo_exit_with_mutation":$WITH,"demo_exit_without_mutation":$WITHOUT},"checks_run":"$RES","needs":"see agent_README.md"}
EOM
echo "stored $DST ($RES)"
