#!/usr/bin/env python3
# Regenerates /verif/MANIFEST.json from the property list and tools/manifest_meta.json.
import json
props=[json.loads(l) for l in open('/verif/properties.jsonl')]
meta=json.load(open('/verif/tools/manifest_meta.json'))
man={
 "version":1,
 "setup_cmd":"cd /verif/engine && GOFLAGS=-mod=mod GOPROXY=off go build -o /verif/bin/gosym . && /verif/bin/gosym selftest",
 "hooks":{"guard":"verif","enable":"no source hooks in /repo: harness files are injected as overlay files carrying //go:build verif (packages.Config.Overlay for analysis, go test -tags verif -overlay for native replay)","baseline_off_cmd":"cd /repo && GOFLAGS=-mod=mod GOPROXY=off go test -vet=off -count=1 ./...","source_commits":[],"add_only":True},
 "engines":[{"name":"gosym","path":"/verif/engine","serves_properties":sorted(meta["checks"].keys()),"kind_free_text":"bounded symbolic executor for Go SSA (go/ssa) with z3 4.8.12 as decision procedure (z3 5.1 / cvc5 cross-checks in the thorough tier); stateless DFS with decision replay; native replay of counterexamples through go test -overlay"}],
 "checks":[],
 "not_applicable":[],
 "notes":"see DESIGN.md; known findings in /verif/known_findings.json"
}
for p in props:
    i=p['id']
    if i in meta["checks"]:
        m=meta["checks"][i]
        man["checks"].append({
          "property_id":i,
          "quick_cmd":"/verif/bin/gosym check %s --tier quick"%i,
          "thorough_cmd":"/verif/bin/gosym check %s --tier thorough"%i,
          "evidence_file":"/verif/evidence/%s.json"%i,
          "replay_cmd_template":"/verif/bin/gosym replay {path}",
          "engine":"gosym",
          "level_claimed":{"category":"model_checking","text":m["text"],"design_ref":"DESIGN.md §6 "+i},
          "level_note":m["note"],
          "technique":m.get("technique","solver-based bounded symbolic execution of go/ssa (SMT: z3), inductive step over a symbolic pre-state")
        })
    else:
        man["not_applicable"].append({"property_id":i,"reason":meta["not_applicable"].get(i,"check not built yet in this session (engine stage pending)")})
json.dump(man,open('/verif/MANIFEST.json','w'),indent=1)
print("checks:",len(man["checks"]),"n/a:",len(man["not_applicable"]))
