#!/usr/bin/env python3
import json,sys
v=json.load(open(sys.argv[1]))
print(v['harness'],v['label'],v.get('detail',''))
for k in v['order']:
    if k.startswith('~'): continue
    print(' ',k, v['inputs'][k])
