import sys
pid, hint = sys.argv[1], sys.argv[2]
print(f"""You are helping evaluate a verification framework by seeding realistic bugs into a Go project. Work ONLY inside the git worktree /tmp/wt6-{pid} (a checkout of the project andydunstall/piko, a clustered reverse proxy / tunnel server with a scuttlebutt-style gossip protocol). Do NOT read or touch /verif or /repo.

The property under test is in /tmp/prop-{pid}.txt (JSON: id, title, statement, quantifier, anchors). Read it, then read the anchored source files in /tmp/wt6-{pid} carefully, including the callers of the anchored functions.

Task: produce TWO different, independent source changes (mutations) to the non-test Go code of the project, each of which BREAKS this property while (a) the project still compiles and (b) the existing test suite still passes unchanged. Make them SUBTLE and DIVERSE - avoid the single most obvious comparison flip, and avoid the most central function of the property where you can: look at its callers, at wiring and constructors (what is passed to what), at option and configuration plumbing, at error and early-return paths, at secondary copies of the same logic (piko often has 2-4 similar implementations), and at code that maintains a field the central function relies on. Prefer: a change whose effect needs two cooperating sites or two steps (state written in one call, misused in a later one); a statement moved before/after another; a value computed from the wrong (but plausible) variable; a missing update of one of several fields that must stay in step; an early return that skips a later side effect; a loop that stops one element early; handling that is right for user keys but wrong for the internal keys (or vice versa). Each must need something SPECIFIC to manifest - {hint} - not something ordinary use would expose at once.

For each mutation i in {{1,2}} create the directory /tmp/wt6-{pid}/MUTATION/m<i>/ containing:
 - patch.diff : `git diff` of ONLY that mutation against the worktree HEAD (apply one mutation at a time; revert with `git checkout -- .` between them; never commit),
 - demo_test.go : a Go test file (its FIRST comment line must say the repo-relative path it should be copied to, e.g. `// copy to: pkg/gossip/zz_demo_m1_test.go`) that FAILS with the mutation applied and PASSES without it,
 - README.md : which clause of the property it breaks, what it needs in order to manifest, and the exact commands you ran with their outcomes.
Also create /tmp/wt6-{pid}/MUTATION/go.mod containing `module mutation` so that `go test ./...` ignores the MUTATION directory.

How to build/test offline (no network): in the worktree run `GOFLAGS=-mod=mod GOPROXY=off go build ./... && GOFLAGS=-mod=mod GOPROXY=off go test -vet=off -count=1 ./...` . Do not set GOSUMDB or GOTOOLCHAIN. You must verify yourself, for each mutation: (1) build passes, (2) full existing suite passes WITH the mutation (re-run once if a timing-sensitive test fails under load), (3) your demo test fails WITH the mutation, (4) your demo test passes WITHOUT the mutation. Remove the demo test copy from the source tree when done (keep only the copy under MUTATION/), and leave the worktree clean (`git status` shows only the untracked MUTATION directory).

Finally reply with a short summary: for each mutation, one sentence on what it changes and what it needs to manifest.""")
