#!/bin/bash
# runall.sh <tier> : runs every registered check sequentially on /repo, one line each
TIER=${1:-quick}
cd /verif
for id in C01 C02 C03 C04 C05 C06 C07 C08 C09 C10 C11 C12 C13 C14 C15 C16 C17 C18 C19 C20; do
  S=$(date +%s)
  OUT=$(timeout ${2:-1500} ./bin/gosym check $id --tier $TIER 2>/dev/null | grep -E "^(HELD|VIOLATION|UNDECIDED|KNOWN)" | cut -c1-160)
  echo "[$id] $(( $(date +%s) - S ))s rc: $(echo "$OUT" | tr '\n' ' ' | cut -c1-400)"
done
