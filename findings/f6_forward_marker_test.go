// Reproduction of finding F6 (properties C06 / C01) with the real proxy
// servers, real net/http and real httputil.ReverseProxy over loopback TCP.
//
// Two nodes each believe the other one serves the endpoint (stale routing
// tables). Normally a request is handled by at most two nodes (one hop) and
// answered 502. With the client header `Connection: x-piko-forward` the
// reverse proxy strips piko's forward marker on the hop, so the second node
// forwards the request again: three handler runs.
//
// The second test: `Connection: x-piko-endpoint` strips the endpoint header on
// the hop, so the second node derives the endpoint from Host and serves a
// different endpoint than the one the entry node routed.
//
// Fails on the tree before the repair a3abc8b (e.g. b77c840), passes from it on.
//
// Copy to /repo/server/proxy/zz_f6_test.go and run: go test -run TestF6 ./server/proxy/
package proxy

import (
	"net"
	"net/http"
	"sync/atomic"
	"testing"

	"github.com/andydunstall/piko/pkg/log"
	"github.com/andydunstall/piko/server/config"
	"github.com/andydunstall/piko/server/upstream"
)

type f6Upstream struct {
	addr     string
	endpoint string
	forward  bool
}

func (u *f6Upstream) Dial() (net.Conn, error) { return net.Dial("tcp", u.addr) }
func (u *f6Upstream) EndpointID() string      { return u.endpoint }
func (u *f6Upstream) Forward() bool           { return u.forward }

func f6Node(t *testing.T, selects *int32, route func(endpointID string, allowForward bool) (upstream.Upstream, bool)) (string, func()) {
	ln, err := net.Listen("tcp", "127.0.0.1:0")
	if err != nil {
		t.Fatal(err)
	}
	m := &fakeManager{handler: func(endpointID string, allowForward bool) (upstream.Upstream, bool) {
		atomic.AddInt32(selects, 1)
		return route(endpointID, allowForward)
	}}
	s := NewServer(m, config.Default().Proxy, nil, nil, nil, log.NewNopLogger())
	go func() { _ = s.Serve(ln) }()
	return ln.Addr().String(), func() { ln.Close() }
}

func TestF6_ForwardMarkerStripped(t *testing.T) {
	for _, tc := range []struct {
		name       string
		connection string
		wantRuns   int32
	}{{"plain", "", 2}, {"connection-x-piko-forward", "x-piko-forward", 2}} {
		t.Run(tc.name, func(t *testing.T) {
			var runs int32
			var addrA, addrB string
			addrA, closeA := f6Node(t, &runs, func(id string, allow bool) (upstream.Upstream, bool) {
				if !allow {
					return nil, false
				}
				return &f6Upstream{addr: addrB, endpoint: id, forward: true}, true
			})
			defer closeA()
			addrB, closeB := f6Node(t, &runs, func(id string, allow bool) (upstream.Upstream, bool) {
				if !allow {
					return nil, false
				}
				return &f6Upstream{addr: addrA, endpoint: id, forward: true}, true
			})
			defer closeB()
			req, _ := http.NewRequest("GET", "http://"+addrA+"/", nil)
			req.Header.Set("x-piko-endpoint", "e")
			if tc.connection != "" {
				req.Header.Set("Connection", tc.connection)
			}
			resp, err := http.DefaultClient.Do(req)
			if err != nil {
				t.Fatal(err)
			}
			resp.Body.Close()
			if got := atomic.LoadInt32(&runs); got > tc.wantRuns {
				t.Fatalf("request handled by %d nodes (status %d); a forwarded request must never be forwarded again (at most %d)", got, resp.StatusCode, tc.wantRuns)
			}
		})
	}
}

func TestF6_EndpointHeaderStripped(t *testing.T) {
	var runs int32
	var served atomic.Value // endpoint the second node selected for
	var addrB string
	addrA, closeA := f6Node(t, &runs, func(id string, allow bool) (upstream.Upstream, bool) {
		return &f6Upstream{addr: addrB, endpoint: id, forward: true}, true
	})
	defer closeA()
	addrB, closeB := f6Node(t, &runs, func(id string, allow bool) (upstream.Upstream, bool) {
		served.Store(id)
		return nil, false
	})
	defer closeB()
	req, _ := http.NewRequest("GET", "http://"+addrA+"/", nil)
	req.Host = "other.piko.example.com"
	req.Header.Set("x-piko-endpoint", "wanted")
	req.Header.Set("Connection", "x-piko-endpoint")
	resp, err := http.DefaultClient.Do(req)
	if err != nil {
		t.Fatal(err)
	}
	resp.Body.Close()
	if got, _ := served.Load().(string); got != "wanted" {
		t.Fatalf("entry node routed endpoint %q but the second node looked up %q", "wanted", got)
	}
}
