// Reproduction of finding F8 (property C02) with the real gossip state, the
// real delta codec and the real packet handler.
//
// An observer knows an owner's state up to version 2 and sends its digest. The
// peer answers with a delta packet holding only the owner's entries above
// version 2. While that datagram is in flight (datagrams can be delayed
// arbitrarily) the owner - unreachable for the expiry period - is removed from
// the observer. The late packet then re-created the owner on the observer from
// the partial delta: the observer reported the owner at version 3 although it
// held none of the owner's entries up to version 2, and since its digest now
// names version 3 nobody ever sends them again.
//
// Fails on the tree before the repair 10d102a (e.g. a3abc8b), passes from it on.
//
// Copy to /repo/pkg/gossip/zz_f8_test.go and run: go test -run TestF8 ./pkg/gossip/
package gossip

import (
	"testing"
	"time"

	"github.com/andydunstall/piko/pkg/log"
)

type f8Detector struct{}

func (f8Detector) Report(string)                 {}
func (f8Detector) SuspicionLevel(string) float64 { return 0 }
func (f8Detector) Remove(string)                 {}

func TestF8_LateDeltaAfterExpiry(t *testing.T) {
	owner := newClusterState("owner", "owner:1", f8Detector{}, newMetrics(), &nopWatcher{})
	owner.UpsertLocal("proxy_addr", "10.0.0.1:8000") // version 1
	owner.UpsertLocal("admin_addr", "10.0.0.1:8002") // version 2

	observer := newClusterState("observer", "observer:1", f8Detector{}, newMetrics(), &nopWatcher{})
	observer.ApplyDigest(owner.Digest())
	observer.ApplyDelta(owner.Delta(observer.Digest(), false))
	if n, ok := observer.Node("owner"); !ok || n.Version != 2 {
		t.Fatalf("setup: observer does not know the owner at version 2: %+v", n)
	}

	// the observer asks for news about the owner (version 2) ...
	digest := observer.Digest()
	// ... the owner writes once more and answers with the entries above 2 ...
	owner.UpsertLocal("endpoint:my-endpoint", "1") // version 3
	packet, err := encodeDelta(deltaHeader{NodeID: "owner", Addr: "owner:1"}, owner.Delta(digest, false), 1400)
	if err != nil {
		t.Fatal(err)
	}

	// ... and while the answer is in flight the observer forgets the owner
	// (unreachable, expiry period over).
	observer.mu.Lock()
	observer.nodes["owner"].Unreachable = true
	observer.nodes["owner"].Expiry = time.Now().Add(-time.Second)
	observer.mu.Unlock()
	observer.RemoveExpired()
	if _, ok := observer.Node("owner"); ok {
		t.Fatal("setup: owner not forgotten")
	}

	l := newPacketListener(nil, observer, f8Detector{}, 1400, newMetrics(), log.NewNopLogger())
	if err := l.handlePacket(packet); err != nil {
		t.Fatal(err)
	}

	n, ok := observer.Node("owner")
	if !ok {
		return // stays forgotten until it is discovered again (from version 0): fine
	}
	// whatever is reported must be complete up to the reported version
	have := map[string]bool{}
	for _, e := range n.Entries {
		have[e.Key] = true
	}
	if n.Version >= 2 && (!have["proxy_addr"] || !have["admin_addr"]) {
		t.Fatalf("observer reports the owner at version %d but misses entries written at versions 1 and 2: %+v", n.Version, n.Entries)
	}
}
