// Reproduction of finding F7 (property C03) with the real codec: an entry whose
// encoding alone exceeds the packet budget is never carried by a delta packet,
// and because deltas are version-ordered prefixes it blocks every later entry
// of that node too.
//
// Copy to /repo/pkg/gossip/zz_f7_test.go and run: go test -run TestF7 ./pkg/gossip/
package gossip

import (
	"strings"
	"testing"
)

func TestF7_OversizedEntryBlocksProgress(t *testing.T) {
	const maxPacketSize = 1400
	owner := newClusterState("owner", "1.1.1.1:1", &fakeFailureDetector{}, newMetrics(), newNopWatcher())
	owner.UpsertLocal("endpoint:"+strings.Repeat("x", 2000), "1") // endpoint ids come from URL paths
	owner.UpsertLocal("small", "v")
	observer := newClusterState("observer", "2.2.2.2:2", &fakeFailureDetector{}, newMetrics(), newNopWatcher())
	for round := 0; round < 5; round++ {
		observer.ApplyDigest(owner.Digest())
		d := owner.Delta(observer.Digest(), false)
		b, err := encodeDelta(deltaHeader{NodeID: "owner", Addr: "1.1.1.1:1"}, d, maxPacketSize)
		if err != nil {
			t.Fatal(err)
		}
		_, got, err := decodeDelta(b)
		if err != nil {
			t.Fatal(err)
		}
		observer.ApplyDelta(got)
	}
	n, _ := observer.Node("owner")
	if n.Version != 2 {
		t.Fatalf("after 5 exchanges the observer is still at version %d of 2: the oversized entry is never delivered and blocks the small one behind it", n.Version)
	}
}
