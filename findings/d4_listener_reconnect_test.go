// Reproduction of finding D4 (property C18) through the public client API and
// real sockets: when the SERVER side of an upstream connection goes away
// (abrupt close = node killed, or a websocket close frame = graceful stop) the
// listener must reconnect; before the fix Accept returned ErrClosed and the
// listener never reconnected.
//
// Copy to /repo/client/zz_d4_test.go and run: go test -run TestD4 ./client/
package client_test

import (
	"context"
	"net/http"
	"net/http/httptest"
	"net/url"
	"sync/atomic"
	"testing"
	"time"

	"github.com/andydunstall/yamux"
	"github.com/gorilla/websocket"

	"github.com/andydunstall/piko/client"
	pikowebsocket "github.com/andydunstall/piko/pkg/websocket"
)

func runD4(t *testing.T, graceful bool) {
	var conns int32
	up := websocket.Upgrader{}
	srv := httptest.NewServer(http.HandlerFunc(func(w http.ResponseWriter, r *http.Request) {
		ws, err := up.Upgrade(w, r, nil)
		if err != nil {
			return
		}
		n := atomic.AddInt32(&conns, 1)
		conn := pikowebsocket.New(ws)
		sess, _ := yamux.Server(conn, yamux.DefaultConfig())
		if n == 1 {
			time.Sleep(100 * time.Millisecond)
			if graceful {
				_ = ws.WriteControl(websocket.CloseMessage, websocket.FormatCloseMessage(websocket.CloseNormalClosure, ""), time.Now().Add(time.Second))
			}
			_ = ws.UnderlyingConn().Close() // the node goes away
			_ = sess.Close()
			return
		}
		// keep the second connection open
		<-r.Context().Done()
	}))
	defer srv.Close()
	u, _ := url.Parse(srv.URL)
	upstream := &client.Upstream{URL: u, MinReconnectBackoff: 10 * time.Millisecond}
	ctx, cancel := context.WithTimeout(context.Background(), 5*time.Second)
	defer cancel()
	ln, err := upstream.Listen(ctx, "e")
	if err != nil {
		t.Fatal(err)
	}
	defer ln.Shutdown()
	done := make(chan error, 1)
	go func() {
		_, err := ln.Accept()
		done <- err
	}()
	select {
	case err := <-done:
		t.Fatalf("Accept returned %v after the server went away (connections made: %d): the listener did not reconnect", err, atomic.LoadInt32(&conns))
	case <-time.After(1500 * time.Millisecond):
	}
	if n := atomic.LoadInt32(&conns); n < 2 {
		t.Fatalf("listener did not reconnect: %d connection(s)", n)
	}
}

func TestD4_ServerKilled(t *testing.T)        { runD4(t, false) }
func TestD4_ServerClosedGracefully(t *testing.T) { runD4(t, true) }
